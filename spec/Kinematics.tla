--------------------------- MODULE Kinematics ---------------------------
(* Discrete content of property C11 (kinematic transformations are mutually *)
(* inverse): for EVERY cascade shape with N final particles (Topology!CF(N)) *)
(* the list of independent variables that                                    *)
(*   tf_pwa.data_trans.helicity_angle.HelicityAngle.build_data consumes and  *)
(*   find_variable returns                                                   *)
(* -- one invariant mass per inner resonance, one (cos theta, phi) pair per  *)
(* decay, taken for the decay's first daughter -- and the RANGE RULE by      *)
(* which the masses can be chosen one after the other (parent before child): *)
(*     Lower(T) = sum of the leaf masses below T                             *)
(*     Upper(T) = mass(parent) - (mass(sibling) if already chosen            *)
(*                                else Lower(sibling))                       *)
(* The rule is modelled as a step machine over INTEGER masses (exact finite  *)
(* analogue): TLC explores every order of choosing and every integer value,  *)
(* and checks that the rule never gets stuck, that every decay it produces   *)
(* is kinematically allowed, that every allowed mass assignment is produced  *)
(* (Post: RuleComplete), and that the variable count is 3N-4.  The harness   *)
(* samples real masses with the same rule and real angles, and holds the     *)
(* implementation to the round trip (checks/c11.py).                         *)
EXTENDS Integers, Sequences, FiniteSets, TLC, Json, IOUtils, FiniteSetsExt, SequencesExt

CONSTANTS N,      \* number of final-state particles
          Q       \* integer energy release of the parent

VARIABLES shape,  \* canonical form of the cascade (set of leaf sets of its inner nodes)
          mass    \* partial function: inner grouping -> chosen integer mass
vars == <<shape, mass>>

Topo == INSTANCE Topology WITH NameN <- 0, LawN <- 0, edges <- {}, nxt <- 0, cnt <- 0, canon <- {}

Full == 1..N
LeafMass(l) == 1 + (l % 2)
Lower(S) == Cardinality(S) + Cardinality({l \in S : l % 2 = 1})
TopMass == Lower(Full) + Q

MinOf(S) == CHOOSE x \in S : \A y \in S : x <= y
Kids(c, T) == Topo!Kids(c, T)
FirstKid(c, T) == CHOOSE K \in Kids(c, T) : MinOf(T) \in K
SecondKid(c, T) == CHOOSE K \in Kids(c, T) : MinOf(T) \notin K
Parent(c, T) == CHOOSE P \in c : T \in Kids(c, P)
Sibling(c, T) == CHOOSE K \in Kids(c, Parent(c, T)) : K # T

\* current value of a sub-system: its mass if fixed or chosen, else its lower bound
Val(m, S) == IF Cardinality(S) = 1 THEN LeafMass(MinOf(S))
             ELSE IF S \in DOMAIN m THEN m[S] ELSE Lower(S)
Upper(c, m, T) == m[Parent(c, T)] - Val(m, Sibling(c, T))
Ready(T) == T \in shape /\ T \notin DOMAIN mass /\ Parent(shape, T) \in DOMAIN mass

Init == shape \in Topo!CF(N) /\ mass = (Full :> TopMass)
ChooseMass(T, x) ==
    /\ Ready(T)
    /\ x \in Lower(T)..Upper(shape, mass, T)
    /\ mass' = mass @@ (T :> x)
    /\ UNCHANGED shape
Next == \E T \in shape : \E x \in 0..TopMass : ChooseMass(T, x)

Complete == DOMAIN mass = shape

--------------------------------------------------------------------------
(* the variable list                                                        *)
MassVars(c) == c \ {Full}
AngleVars(c) == {<<T, FirstKid(c, T)>> : T \in c}
NVars(c) == Cardinality(MassVars(c)) + 2 * Cardinality(AngleVars(c))
\* a top-down order (parent before child): by decreasing size, then by smallest leaf
TopDown(c) == SetToSortSeq(c, LAMBDA A, B : Cardinality(A) > Cardinality(B)
                               \/ (Cardinality(A) = Cardinality(B) /\ MinOf(A \ B) < MinOf(B \ A)))

--------------------------------------------------------------------------
(* invariants                                                               *)
TypeOK == /\ Topo!IsBinaryForm(shape)
          /\ DOMAIN mass \subseteq shape /\ Full \in DOMAIN mass
          /\ \A T \in DOMAIN mass : mass[T] \in 0..TopMass
\* the rule never paints itself into a corner
NeverStuck == \A T \in shape : Ready(T) => Lower(T) <= Upper(shape, mass, T)
\* every decay it has fixed so far is kinematically allowed, whatever comes later
Allowed == \A T \in DOMAIN mass :
    mass[T] >= Val(mass, FirstKid(shape, T)) + Val(mass, SecondKid(shape, T))
\* 3N-4 = (N-2) masses + 2(N-1) angles = 3N-7 Lorentz invariants + 3 orientation angles
VarCount == NVars(shape) = 3 * N - 4 /\ Cardinality(AngleVars(shape)) = N - 1
ParentFirst == LET o == TopDown(shape) IN
    \A i \in 1..Len(o) : o[i] # Full => \E j \in 1..(i - 1) : o[j] = Parent(shape, o[i])

--------------------------------------------------------------------------
(* completeness of the rule: every kinematically allowed integer assignment *)
(* is produced when the masses are chosen in the TopDown order              *)
Feasible(c) == {f \in [c -> 2..TopMass] :        \* 2 = smallest possible Lower of an inner grouping
    /\ f[Full] = TopMass
    /\ \A T \in c : f[T] >= Val(f, FirstKid(c, T)) + Val(f, SecondKid(c, T))}
Before(o, f, i) == [T \in {o[j] : j \in 1..(i - 1)} |-> f[T]]
RuleComplete ==
    \A c \in Topo!CF(N) :
        LET o == TopDown(c) IN
        \A f \in Feasible(c) :
            \A i \in 2..Len(o) : /\ Lower(o[i]) <= f[o[i]]
                                 /\ f[o[i]] <= Upper(c, Before(o, f, i), o[i])

Post ==
    /\ TLCGet("stats").diameter >= 0
    /\ RuleComplete
    /\ JsonSerialize(IOEnv.OUT_FILE,
         [n |-> N, q |-> Q, nvars |-> 3 * N - 4,
          shapes |-> {[form |-> c,
                       order |-> TopDown(c),
                       masses |-> MassVars(c),
                       angles |-> AngleVars(c),
                       tree |-> {<<T, FirstKid(c, T), SecondKid(c, T)>> : T \in c},
                       range |-> {<<T, Parent(c, T), Sibling(c, T)>> : T \in c \ {Full}}] : c \in Topo!CF(N)}])
==========================================================================
