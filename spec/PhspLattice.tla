---------------------------- MODULE PhspLattice ----------------------------
(* n-body phase space (tf_pwa/phasespace.py): the unweighting weight and its *)
(* bound, exactly, on an integer mass lattice; and the discrete quantifier   *)
(* of property C10 (numbers of bodies, mass patterns, Q-value classes,       *)
(* nestings of the chain generator).                                        *)
(*                                                                           *)
(* Mode "lattice".  State = (parent mass m0, daughter masses ms, a chain of  *)
(* intermediate masses M_2 .. M_{n-1} inside the ranges generate_mass draws  *)
(* from), all integers.  With  P2(M, a, b) = lambda(M^2, a^2, b^2) / (4 M^2) *)
(* (the square of get_p) the specification evaluates as exact rationals      *)
(*    the factors of get_weight:      P2(M_{i+1}, M_i, m)                    *)
(*    the factors of m_wtMax (set_decay): P2(emmax_i, emmin_i, m)            *)
(*    the importance factor (mass_importances): prod (b_i - a_i)/(b_i - amin_i) *)
(* and TLC checks on every lattice point                                     *)
(*    FactorBound : every factor of the weight is <= the matching factor of  *)
(*                  the bound  (hence wt <= wtMax),                          *)
(*    ImpLeOne    : 0 <= importance <= 1, the drawn range lies in mass_range,*)
(* i.e. the acceptance weight never exceeds one.  The rows are written as    *)
(* JSON; the harness compares get_weight / m_wtMax of the real generator     *)
(* with them.                                                                *)
(*                                                                           *)
(* Mode "scen".  State = a scenario (shape of the nesting, mass pattern,     *)
(* Q class).  Shapes are ordered trees: a leaf is <<>>, a node the sequence  *)
(* of its >= 2 children.  Flatten transcribes _get_generator (depth-first,   *)
(* children before the node).                                                *)
EXTENDS Integers, Sequences, FiniteSets, TLC, Json, IOUtils, SequencesExt

CONSTANTS
    Mode,       \* "lattice" | "scen"
    Bodies,     \* lattice: numbers of daughters
    MVals,      \* lattice: daughter masses
    QVals,      \* lattice: Q values (m0 = sum + Q)
    MaxLeaves,  \* scen: shapes with 2..MaxLeaves leaves
    NestLeaves  \* scen: nested (non-flat) shapes only up to this many leaves

VARIABLE c
vars == <<c>>

RECURSIVE GCD(_, _)
GCD(a, b) == IF b = 0 THEN a ELSE GCD(b, a % b)
RNorm(r) == IF r[1] = 0 THEN <<0, 1>>
            ELSE LET g0 == GCD(r[1], r[2]) IN <<r[1] \div g0, r[2] \div g0>>
RLe(a, b) == a[1] * b[2] <= b[1] * a[2]
RECURSIVE SeqSum(_)
SeqSum(s) == IF Len(s) = 0 THEN 0 ELSE Head(s) + SeqSum(Tail(s))

-----------------------------------------------------------------------------
(* get_p squared: p2 <= 0 is clipped to 0                                    *)
Lam(M, a, b) == (M * M - (a + b) * (a + b)) * (M * M - (a - b) * (a - b))
P2(M, a, b) == IF Lam(M, a, b) <= 0 THEN <<0, 1>> ELSE RNorm(<<Lam(M, a, b), 4 * M * M>>)

\* ms[k], k = 1..n ; python m_mass[-j] = ms[n - j + 1]
N(cs) == Len(cs.ms)
Back(cs, j) == cs.ms[N(cs) - j + 1]
Q(cs) == cs.m0 - SeqSum(cs.ms)

\* set_decay: factor j = 1..n-1 of m_wtMax
EmMin(cs, j) == SeqSum([k \in 1..j |-> Back(cs, k)])
EmMax(cs, j) == Q(cs) + Back(cs, 1) + SeqSum([k \in 1..j |-> Back(cs, k + 1)])
MaxFactor(cs, j) == P2(EmMax(cs, j), EmMin(cs, j), Back(cs, j + 1))

\* get_weight: mass_t = [m_n, M_2, ..., M_{n-1}, m0] ; factor j = 1..n-1
MassT(cs, j) == IF j = 0 THEN Back(cs, 1) ELSE IF j = N(cs) - 1 THEN cs.m0 ELSE cs.chain[j]
Factor(cs, j) == P2(MassT(cs, j), MassT(cs, j - 1), Back(cs, j + 1))

\* generate_mass: i = 0..n-3 draws M in [a_i, b_i]
\* sm_i = sum(ms) - m[-1] - m[-2] - sum_{k<=i} m[-k-2]   (masses not yet absorbed, the current daughter excluded)
Sm(cs, i) == SeqSum(cs.ms) - SeqSum([k \in 1..(i + 2) |-> Back(cs, k)])
B(cs, i) == cs.m0 - Sm(cs, i)
A(cs, i) == MassT(cs, i) + Back(cs, i + 2)
AMin(cs, i) == SeqSum([k \in 1..(i + 2) |-> Back(cs, k)])          \* get_mass_range()[i][0]
\* mass_importances: factors for i >= 1
ImpNum(cs) == [i \in 1..(N(cs) - 3) |-> B(cs, i) - A(cs, i)]
ImpDen(cs) == [i \in 1..(N(cs) - 3) |-> B(cs, i) - AMin(cs, i)]

\* all chains on the lattice (M >= 1 so that get_p is defined)
RECURSIVE Chains(_, _, _)
Chains(cs0, pre, i) ==
    IF i > N(cs0) - 3 THEN {pre}
    ELSE LET cs == [cs0 EXCEPT !.chain = pre \o [k \in 1..(N(cs0) - 2 - Len(pre)) |-> 0]]
             lo == IF A(cs, i) < 1 THEN 1 ELSE A(cs, i)
         IN UNION {Chains(cs0, Append(pre, M), i + 1) : M \in lo..B(cs, i)}

MassSeqs(n, f) == {<<f>> \o r : r \in [1..(n - 1) -> MVals]}
LatticeOf(n, f) ==
    UNION {UNION {{[root |-> FALSE, m0 |-> SeqSum(ms) + q, ms |-> ms, chain |-> ch] :
                      ch \in Chains([root |-> FALSE, m0 |-> SeqSum(ms) + q, ms |-> ms, chain |-> <<>>], <<>>, 0)}
                  : q \in QVals} : ms \in MassSeqs(n, f)}

FactorBound == c.root \/ Mode # "lattice" \/
    (\A j \in 1..(N(c) - 1) : RLe(Factor(c, j), MaxFactor(c, j)))
ImpLeOne == c.root \/ Mode # "lattice" \/
    (\A i \in 0..(N(c) - 3) :
        /\ AMin(c, i) <= A(c, i)                     \* the drawn range lies inside mass_range[i]
        /\ A(c, i) <= c.chain[i + 1] \/ c.chain[i + 1] = 1
        /\ c.chain[i + 1] <= B(c, i)
        /\ (i >= 1 => (0 <= B(c, i) - A(c, i) /\ B(c, i) - A(c, i) <= B(c, i) - AMin(c, i) /\ B(c, i) - AMin(c, i) > 0)))
\* the last intermediate mass leaves room for the first daughter: M_{n-1} + m_1 <= m0
Kinematic == c.root \/ Mode # "lattice" \/
    (N(c) >= 3 => c.chain[N(c) - 2] + c.ms[1] <= c.m0)

\* one row per mass configuration: the bound, the ranges, and every lattice chain with its weight factors
CfgOf(ms, q) == [root |-> FALSE, m0 |-> SeqSum(ms) + q, ms |-> ms, chain |-> <<>>]
CRow(ms, q) ==
    LET c0 == CfgOf(ms, q) IN
    [m0 |-> c0.m0, ms |-> ms,
     facmax |-> [j \in 1..(N(c0) - 1) |-> MaxFactor(c0, j)],
     range |-> [i \in 1..(N(c0) - 2) |-> <<AMin(c0, i - 1), B(c0, i - 1)>>],
     chains |-> {LET cs == [c0 EXCEPT !.chain = ch] IN
                 <<ch, [j \in 1..(N(cs) - 1) |-> Factor(cs, j)], ImpNum(cs), ImpDen(cs)>> : ch \in Chains(c0, <<>>, 0)}]

-----------------------------------------------------------------------------
(* scenarios                                                                 *)
RECURSIVE Shapes(_), Forests(_, _)
Shapes(k) == IF k = 1 THEN {<<>>} ELSE UNION {Forests(k, m) : m \in 2..k}
Forests(k, m) == IF m = 1 THEN {<<t>> : t \in Shapes(k)}
                 ELSE UNION {{<<t>> \o f : t \in Shapes(j), f \in Forests(k - j, m - 1)} : j \in 1..(k - m + 1)}
Flat(k) == [i \in 1..k |-> <<>>]
RECURSIVE Leaves(_)
Leaves(t) == IF Len(t) = 0 THEN 1 ELSE SeqSum([i \in 1..Len(t) |-> Leaves(t[i])])
\* _get_generator: depth first, the children's generators before the node's own; index path of every node
RECURSIVE Flatten(_, _)
Flatten(t, path) ==
    IF Len(t) = 0 THEN <<>>
    ELSE LET sub == [i \in 1..Len(t) |-> Flatten(t[i], Append(path, i - 1))]
             RECURSIVE Cat(_)
             Cat(i) == IF i = 0 THEN <<>> ELSE Cat(i - 1) \o sub[i]
         IN Cat(Len(t)) \o <<[path |-> path, nt |-> Len(t)]>>

Patterns(k) == [1..k -> {"z", "l", "h"}]
Cyclic(k, off) == [i \in 1..k |-> <<"l", "h", "z">>[((i + off) % 3) + 1]]
QClasses == {"thr", "mid", "big"}
ScenOf(k) ==
    {[root |-> FALSE, shape |-> Flat(k), pat |-> p, q |-> q] : p \in Patterns(k), q \in QClasses}
    \cup (IF k <= NestLeaves
          THEN {[root |-> FALSE, shape |-> s, pat |-> Cyclic(k, off), q |-> q] :
                   s \in Shapes(k) \ {Flat(k)}, off \in 0..2, q \in QClasses}
          ELSE {})
\* every node of the flattened list decays into >= 2 daughters and the generators account for every leaf
ShapeOK == c.root \/ Mode # "scen" \/
    LET fl == Flatten(c.shape, <<>>) IN
    /\ \A i \in DOMAIN fl : fl[i].nt >= 2
    /\ SeqSum([i \in DOMAIN fl |-> fl[i].nt]) - (Len(fl) - 1) = Leaves(c.shape)
    /\ fl[Len(fl)].path = <<>>                                     \* the top generator comes last
    /\ Leaves(c.shape) = Len(c.pat)
SRow(cs) == [shape |-> cs.shape, pat |-> cs.pat, q |-> cs.q, flat |-> Flatten(cs.shape, <<>>), leaves |-> Leaves(cs.shape)]

-----------------------------------------------------------------------------
Roots == IF Mode = "lattice"
         THEN {[root |-> TRUE, k |-> n, f |-> f] : n \in Bodies, f \in MVals}
         ELSE {[root |-> TRUE, k |-> k, f |-> 0] : k \in 2..MaxLeaves}
Init == c \in Roots
Next == IF c.root
        THEN c' \in (IF Mode = "lattice" THEN LatticeOf(c.k, c.f) ELSE ScenOf(c.k))
        ELSE UNCHANGED vars

Sel == JsonDeserialize(IOEnv.IN_FILE)
MSeq == SetToSeq(MVals)
QSeq == SetToSeq(QVals)
BSeq == SetToSeq(Bodies)
\* lattice: <<ni, fi, j, qi>> selects a mass configuration ; scen: every scenario is written
PickL(t) == LET n == BSeq[(t[1] % Len(BSeq)) + 1]
                all == SetToSeq(MassSeqs(n, MSeq[(t[2] % Len(MSeq)) + 1]))
            IN CRow(all[(t[3] % Len(all)) + 1], QSeq[(t[4] % Len(QSeq)) + 1])
Post ==
    /\ TLCGet("stats").diameter >= 0
    /\ IF Mode = "lattice"
       THEN JsonSerialize(IOEnv.OUT_FILE, [rows |-> [j \in 1..Len(Sel.idx) |-> PickL(Sel.idx[j])]])
       ELSE JsonSerialize(IOEnv.OUT_FILE,
              [sizes |-> [k \in 2..MaxLeaves |-> Cardinality(ScenOf(k))],
               rows |-> [k \in 2..MaxLeaves |-> {SRow(cs) : cs \in ScenOf(k)}]])
=============================================================================
