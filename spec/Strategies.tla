--------------------------- MODULE Strategies ---------------------------
(* The evaluation-strategy option space of a tf-pwa configuration (`data:`    *)
(* section) and its APPLICABILITY predicate.                                  *)
(*                                                                            *)
(* Options (names and registered values as in the code):                      *)
(*   amp_model     tf_pwa/amp/amp.py          register_amp_model              *)
(*   preprocessor  tf_pwa/amp/preprocess.py   register_preprocessor           *)
(*   use_tf_function, jit_compile, no_id_cached                               *)
(*                 tf_pwa/amp/amp.py AbsPDF, experimental/wrap_function.py    *)
(*   lazy_call     tf_pwa/config_loader/data.py cal_angle, tf_pwa/data.py     *)
(*   model, cached_int, cached_amp                                            *)
(*                 tf_pwa/config_loader/config_loader.py _get_model           *)
(*                 (ModelCachedInt, ModelCachedAmp, Model_cfit_cached)        *)
(* plus properties of the decay card / sample that the applicability or the   *)
(* exercised code paths depend on:                                            *)
(*   float_shape   a line-shape parameter (resonance mass) is floated and     *)
(*                 changes between evaluations                                *)
(*   charged       the sample carries charges (data_charge / phsp_charge ->   *)
(*                 charge_conjugation), a third of the events has charge -1,  *)
(*                 the card has a parity-violating vertex and a polarised     *)
(*                 parent (otherwise charge conjugation is invisible)         *)
(*   cp_trans      data option: TRUE (default) the momenta of charge -1       *)
(*                 events are mirrored (cal_angle.parity_trans in the         *)
(*                 preprocessor) and the helicity swap is switched off        *)
(*                 (decay_config.disable_allow_cc); FALSE the decays swap     *)
(*                 H(l1,l2) -> H(-l1,-l2) for those events (amp/core.py       *)
(*                 get_helicity_amp & co. read all_data["charge_conjugation"]) *)
(*                                                                            *)
(* Every combination is one TLC state.  Applicable(s) says whether C05        *)
(* quantifies over it; Reason(s) names the violated clause otherwise.  The    *)
(* predicate was calibrated by reading the code and by probing every          *)
(* amp_model x preprocessor pair and every likelihood model on the unchanged  *)
(* tree.  There is nothing numeric TLC can decide here: the module            *)
(* contributes the exhaustive discrete quantifier domain, the enabling        *)
(* conditions, the canonical form of no-op options and the covering           *)
(* selection per tier; the harness compares every selected applicable         *)
(* strategy with plain eager evaluation on sampled events/parameters.         *)
EXTENDS Integers, Sequences, FiniteSets, TLC, Json, IOUtils

VARIABLE s
vars == <<s>>

AmpModels == {"default", "cached_amp", "cached_shape", "base_factor", "p4_directly"}
Preprocessors == {"default", "cached_amp", "cached_shape", "cached_angle", "p4_directly"}
\* likelihood model selected by _get_model from (model, cached_int, cached_amp)
NllModels == {"default", "cached_int", "cached_amp", "cfit", "cfit_cached"}

All == [amp_model : AmpModels, preprocessor : Preprocessors,
        use_tf_function : BOOLEAN, jit_compile : BOOLEAN, no_id_cached : BOOLEAN,
        lazy_call : BOOLEAN, nll : NllModels, float_shape : BOOLEAN,
        charged : BOOLEAN, cp_trans : BOOLEAN]

Default == [amp_model |-> "default", preprocessor |-> "default",
            use_tf_function |-> FALSE, jit_compile |-> FALSE, no_id_cached |-> FALSE,
            lazy_call |-> FALSE, nll |-> "default", float_shape |-> FALSE,
            charged |-> FALSE, cp_trans |-> TRUE]

--------------------------------------------------------------------------
(* which preprocessor produces the data an amplitude model reads             *)
\*  default / base_factor read angles (data["decay"], data["particle"]); the
\*    cached_amp preprocessor keeps them (no_angle/no_p4 not set) and
\*    cached_angle is a plain BasePreProcessor (its build_cached is never called)
\*  cached_amp / cached_shape read data["cached_amp"], built only by the
\*    preprocessor of the same name (cached_shape needs amp.get_cached_shape_idx)
\*  p4_directly reads data["p4"], kept only by its own preprocessor
PairOK(a, p) ==
    CASE a \in {"default", "base_factor"} -> p \in {"default", "cached_amp", "cached_angle"}
      [] a = "cached_amp" -> p = "cached_amp"
      [] a = "cached_shape" -> p = "cached_shape"
      [] a = "p4_directly" -> p = "p4_directly"

\* options without effect are not separate strategies (canonical form):
\* jit_compile and no_id_cached are only read by the tf.function wrapper
\* cp_trans is only read for events with charge -1
Canonical(x) == /\ x.jit_compile => x.use_tf_function
                /\ x.no_id_cached => x.use_tf_function
                /\ ~x.charged => x.cp_trans

\* the cached likelihood models rebuild angular amplitudes from the angles in
\* the data (build_angle_amp_matrix), so the data must contain them
NllDataOK(x) == x.nll \in {"cached_int", "cached_amp", "cfit_cached"} => x.preprocessor # "p4_directly"

\* cached integrals are parameter-independent only if no line-shape parameter moves
CachedIntOK(x) == x.nll = "cached_int" => ~x.float_shape

\* lazily batched data (LazyCall -> tf.data batches produced by the
\* preprocessor) is accepted by every likelihood model through nll_grad_batch
\* (probed); only the plain FCN.__call__ / Model.nll cannot take it, and the
\* library itself avoids that call (ConfigLoader.fit: print_init_nll = False),
\* so the NLL observer of every strategy is FCN.nll_grad
\* charge-conjugate samples: the library offers every strategy on them and no
\* combination is excluded (read + probed on the unchanged tree):
\*  - the per-event charge travels as an "extra" item through every
\*    preprocessor (SimpleData.load_data / cal_angle, LazyCall.extra per batch)
\*    and is part of the data every amplitude / likelihood model receives;
\*  - cp_trans TRUE: the mirror is applied in BasePreProcessor.__call__, which
\*    the cached_amp / cached_shape / cached_angle preprocessors inherit.  The
\*    p4_directly preprocessor overrides __call__ and P4DirectlyAmplitudeModel
\*    forwards center_mass, r_boost, random_z, align_ref, only_left_angle but
\*    not cp_trans: it silently evaluates un-mirrored momenta -- other numbers
\*    than the default evaluation, i.e. a C05 finding, not an exclusion;
\*  - cp_trans FALSE: the swap sits in HelicityDecay.get_helicity_amp,
\*    get_angle_helicity_amp (cached tensors) and get_factor_angle_helicity_amp
\*    (base_factor).  The last one was written for charges but broadcasts the
\*    charge against the wrong axis and dies inside tf.where with a shape error
\*    -- no clear refusal, hence kept inside the quantifier as a finding.
ChargedOK(x) == TRUE

Clauses(x) == <<PairOK(x.amp_model, x.preprocessor), Canonical(x), NllDataOK(x), CachedIntOK(x), ChargedOK(x)>>
ClauseNames == <<"pairing", "canonical", "nll_needs_angles", "cached_int_fixed_shape", "charged_sample">>
Applicable(x) == \A i \in 1..Len(Clauses(x)) : Clauses(x)[i]
Reason(x) == IF Applicable(x) THEN "applicable"
             ELSE ClauseNames[CHOOSE i \in 1..Len(Clauses(x)) : ~Clauses(x)[i] /\ \A j \in 1..(i - 1) : Clauses(x)[j]]

--------------------------------------------------------------------------
(* option groups and distance from the default strategy                      *)
Groups == <<{"amp_model", "preprocessor"}, {"use_tf_function", "jit_compile", "no_id_cached"},
            {"lazy_call"}, {"nll"}, {"float_shape"}, {"charged", "cp_trans"}>>
Deviates(x, g) == \E f \in Groups[g] : x[f] # Default[f]
Dev(x) == Cardinality({g \in 1..Len(Groups) : Deviates(x, g)})

\* which observers are meaningful: density always; NLL + gradient through
\* FCN.nll_grad; the cfit models are compared with each other
Baseline(x) == IF x.nll = "cfit_cached" THEN "cfit" ELSE IF x.nll = "cfit" THEN "cfit" ELSE "default"

\* covering selection (what the harness executes; everything is enumerated):
\* quick    = one group at a time (XLA without no_id_cached) plus four mixed
\*            strategies;
\* thorough = pairs of groups, where the expensive directions (XLA, lazily
\*            batched data, cached likelihood models) are combined with three
\*            representative pairings instead of all eight
RepPairing(x) == x.amp_model \in {"cached_amp", "cached_shape", "p4_directly"}
ChargedPairing(x) == \/ x.amp_model \in {"cached_amp", "cached_shape", "p4_directly"} /\ x.preprocessor = x.amp_model
                     \/ x.amp_model = "base_factor" /\ x.preprocessor = "default"
Quick(x) ==
    \/ Dev(x) <= 1 /\ (x.jit_compile => ~x.no_id_cached)
    \/ /\ Dev(x) = 2 /\ x.amp_model = "cached_amp" /\ x.use_tf_function /\ ~x.no_id_cached /\ ~x.jit_compile
       /\ ~x.lazy_call /\ x.nll = "default" /\ ~x.float_shape
    \/ /\ Dev(x) = 2 /\ x.lazy_call /\ x.use_tf_function /\ x.no_id_cached /\ ~x.jit_compile
    \/ /\ Dev(x) = 2 /\ x.nll = "cached_amp" /\ x.float_shape
    \* the strategy that computes the angles inside the traced graph (unknown batch size)
    \/ /\ Dev(x) = 2 /\ x.amp_model = "p4_directly" /\ x.use_tf_function /\ ~x.no_id_cached /\ ~x.jit_compile
       /\ ~x.lazy_call /\ x.nll = "default" /\ ~x.float_shape
    \* charge-conjugate samples, both conventions: the strategies that build their own
    \* angular tensors / angles (cached_amp, cached_shape, p4_directly) and base_factor
    \/ /\ Dev(x) = 2 /\ x.charged /\ ChargedPairing(x)
Thorough(x) ==
    \/ Quick(x)
    \* charged samples: every pairing (base_factor with the default preprocessor only),
    \* compiled, lazily batched, cached likelihood models; cached_amp compiled
    \/ /\ x.charged /\ Dev(x) = 2 /\ ~x.float_shape /\ ~x.jit_compile /\ ~x.no_id_cached
       /\ (x.amp_model = "base_factor" => x.preprocessor = "default")
       /\ x.nll \in {"default", "cached_int", "cached_amp"}
    \/ /\ x.charged /\ Dev(x) = 3 /\ x.amp_model = "cached_amp" /\ x.use_tf_function /\ ~x.jit_compile
       /\ ~x.no_id_cached /\ ~x.cp_trans
    \/ Dev(x) <= 1
    \/ /\ Dev(x) = 2 /\ ~x.charged
       /\ (x.jit_compile => (~x.no_id_cached /\ Deviates(x, 1) /\ RepPairing(x)))
       /\ ((x.lazy_call /\ Deviates(x, 1)) => x.amp_model \in {"cached_amp", "p4_directly"})
       /\ ((x.nll # "default" /\ Deviates(x, 1)) => x.amp_model = "cached_amp")
       /\ ((x.lazy_call /\ x.use_tf_function) => x.no_id_cached)
       /\ ~(x.lazy_call /\ x.float_shape)
       /\ (x.nll \in {"cfit", "cfit_cached"} => x.float_shape)
       /\ ((x.lazy_call /\ x.nll # "default") => x.nll \in {"cached_int", "cached_amp"})
       /\ ((x.use_tf_function /\ x.nll # "default") => ~x.no_id_cached)

--------------------------------------------------------------------------
Init == s \in All
Next == UNCHANGED vars

(* theorems about the predicate (checked on every state / at the end)        *)
DefaultApplicable == Applicable(Default) /\ Dev(Default) = 0
\* every registered amplitude model and every preprocessor is usable somewhere
EveryValueUsable ==
    /\ \A a \in AmpModels : \E x \in All : Applicable(x) /\ x.amp_model = a
    /\ \A p \in Preprocessors : \E x \in All : Applicable(x) /\ x.preprocessor = p
    /\ \A m \in NllModels : \E x \in All : Applicable(x) /\ x.nll = m
\* an amplitude model that reads cached tensors pairs with exactly one preprocessor
CachedPairsUnique == s.amp_model \in {"cached_amp", "cached_shape", "p4_directly"} /\ Applicable(s) => s.preprocessor = s.amp_model
\* no strategy is excluded on charged samples (adjudicated above): the applicable
\* strategies of a charged sample are the applicable strategies of the plain one
ChargedSameAsPlain == s.charged => (Applicable(s) <=> Applicable([s EXCEPT !.charged = FALSE, !.cp_trans = TRUE]))
\* the property's own side condition
CachedIntNeedsFixedShape == Applicable(s) /\ s.nll = "cached_int" => ~s.float_shape
\* the tier selections only contain strategies the property quantifies over is
\* NOT required (inapplicable neighbours are probed as outside_quantifier), but
\* quick is contained in thorough and both contain the default
TierNesting == (Quick(s) => Thorough(s)) /\ Quick(Default)
ReasonTotal == Reason(s) \in {"applicable"} \cup {ClauseNames[i] : i \in 1..Len(ClauseNames)}

Row(x) == [opt |-> x, applicable |-> Applicable(x), reason |-> Reason(x), dev |-> Dev(x),
           quick |-> Quick(x), thorough |-> Thorough(x), baseline |-> Baseline(x)]

Post ==
    /\ TLCGet("stats").diameter >= 0
    /\ DefaultApplicable
    /\ EveryValueUsable
    /\ JsonSerialize(IOEnv.OUT_FILE,
         [n_all |-> Cardinality(All),
          n_applicable |-> Cardinality({x \in All : Applicable(x)}),
          rows |-> {Row(x) : x \in {y \in All : Applicable(y) \/ (Canonical(y) /\ Thorough(y))}}])
==========================================================================
