----------------------------- MODULE LazyCache -----------------------------
(* The cache layers of lazily evaluated data (tf_pwa/data.py: LazyCall with *)
(* a HeavyCall stage: as_dataset, cached_batch, set_cached_file, merge,     *)
(* copy / data_replace).  Sibling of LazyCall.tla (batch_size push-down).   *)
(*                                                                          *)
(* An object = one HeavyCall stage on some input:                           *)
(*   x      the input: a sequence of base samples (one sample, or several   *)
(*          merged ones, in merge order), or -- for a nested stage -- the   *)
(*          object below (inner > 0);                                       *)
(*   ex     the own extra entries, one version number per part of x         *)
(*          (data_replace changes the versions, merge concatenates);        *)
(*   dir    0 = cached_file None (no cache), 1 = "" (tf.data in-memory      *)
(*          cache), 2 = a directory (tf.data file cache);                   *)
(*   name   sequence of name atoms (joined with "_" in the code; 0 = "");   *)
(*   mem    cached_batch: batch size -> file key the pipeline was built     *)
(*          with (NoKey when it does not read / write a file).              *)
(* The persistent store `files` maps a file key <<name, batch>> to the      *)
(* content the first complete iteration wrote; tf.data semantics: a file    *)
(* that exists is read instead of recomputing, whatever the input.          *)
(* Extra entries are never cached: they are zipped, batch by batch, with    *)
(* what the pipeline delivers.                                              *)
(*                                                                          *)
(* The content of a pipeline = <<stage level, input, batch size>>.          *)
(* UseFaithful: every use of an object (data_split / batch_call at any      *)
(* batch size, in any order relative to uses of other objects, merges,      *)
(* siblings and cache set-ups) delivers the object's own content.           *)
(* KeysDistinct: two objects with different content never address the same  *)
(* file.  Both are theorems of the configuration StageNames = TRUE, which   *)
(* mirrors the code since commit e54b9e2: set_cached_file hands the stage   *)
(* k levels below the name extended by k markers "_x" (atom -1).            *)
(* StageNames = FALSE is the code before: every stage below got the *same*  *)
(* name, two nested HeavyCall stages shared one file, and TLC refutes       *)
(* UseFaithful / KeysDistinct for nested chains (kept as a sensitivity      *)
(* probe and to recognise a regression); the *Flat variants hold there.     *)
EXTENDS Integers, Sequences, FiniteSets, TLC

CONSTANTS NBase,        \* number of base samples (1..NBase)
          Batches,      \* batch sizes offered
          MaxObjs,      \* largest number of objects
          MaxMerges,    \* largest number of Merge steps
          Dirs,         \* cache kinds offered to set_cached_file: subset of {1, 2}
          AllowNested,  \* offer Wrap (a second HeavyCall stage on an object)
          StageNames,   \* TRUE: a distinct name per stage (name + "_x", commit e54b9e2); FALSE: the same name for all stages
          MaxDepth,     \* histories of at most this many steps (state constraint)
          MergeNames    \* TRUE: merge appends "_" + other.name (the code); FALSE: keeps the first name

VARIABLES objs,         \* sequence of objects
          files,        \* set of <<key, content>> pairs, at most one per key
          nmerge,
          obs
vars == <<objs, files, nmerge, obs>>

NoKey == <<>>
NoObs == [kind |-> "none", o |-> 0, b |-> 0, ok |-> TRUE, read |-> <<>>, own |-> <<>>, fromfile |-> FALSE]
Obj(x, inner, ex, dir, name) == [x |-> x, inner |-> inner, ex |-> ex, dir |-> dir, name |-> name, mem |-> {}]

\* what the stage computes: level (number of stages applied) and input samples
RECURSIVE Level(_, _), Input(_, _)
Level(os, o) == IF os[o].inner = 0 THEN 1 ELSE 1 + Level(os, os[o].inner)
Input(os, o) == IF os[o].inner = 0 THEN os[o].x ELSE Input(os, os[o].inner)
Content(os, o, b) == <<Level(os, o), Input(os, o), b>>

HasFile(k) == \E f \in files : f[1] = k
FileOf(k) == (CHOOSE f \in files : f[1] = k)[2]
KeyOf(me, b) == IF me.dir = 2 THEN <<me.name, b>> ELSE NoKey
MemKey(me, b) == (CHOOSE m \in me.mem : m[1] = b)[2]
HasMem(me, b) == \E m \in me.mem : m[1] = b

\* as_dataset(b) on o and (first) on every stage below: a pipeline is built
\* once per batch size, with the cache settings of that moment
RECURSIVE Prepare(_, _, _)
Prepare(os, o, b) ==
    LET below == IF os[o].inner = 0 THEN os ELSE Prepare(os, os[o].inner, b)
        me == below[o] IN
    IF HasMem(me, b) THEN below
    ELSE [below EXCEPT ![o].mem = @ \cup {<<b, KeyOf(me, b)>>}]

--------------------------------------------------------------------------
Init == /\ objs = [i \in 1..NBase |-> Obj(<<i>>, 0, <<i>>, 0, <<0>>)]  \* LazyCall(HeavyCall(f), sample i), lazy["w"] = ...
        /\ files = {} /\ nmerge = 0 /\ obs = NoObs

\* data_split(o, b) / batch_call(f, o, b), consumed completely
Use(o, b) ==
    /\ o \in 1..Len(objs) /\ b \in Batches
    /\ LET os == Prepare(objs, o, b)
           k == MemKey(os[o], b)
           own == Content(os, o, b)
           hit == k # NoKey /\ HasFile(k)
           read == IF hit THEN FileOf(k) ELSE own IN
       /\ objs' = os
       /\ files' = IF k # NoKey /\ ~hit THEN files \cup {<<k, own>>} ELSE files
       /\ obs' = [kind |-> "use", o |-> o, b |-> b, ok |-> read = own, read |-> read, own |-> own, fromfile |-> hit]
    /\ UNCHANGED nmerge

\* set_cached_file(dir, name): the object gets the name, the stage k levels below
\* the name with k markers "_x" (StageNames) -- formerly the same name
RECURSIVE SetBelow(_, _, _, _)
SetBelow(os, o, d, nm) ==
    LET below == IF os[o].inner = 0 THEN os
                 ELSE SetBelow(os, os[o].inner, d, IF StageNames THEN nm \o <<-1>> ELSE nm)
    IN [below EXCEPT ![o].dir = d, ![o].name = nm]
SetCachedFile(o, d) ==
    /\ o \in 1..Len(objs) /\ d \in Dirs
    /\ objs[o].dir = 0                                  \* configured once, with the object's own name (ConfigLoader: "s{i}{idx}")
    /\ objs' = SetBelow(objs, o, d, <<o>>)
    /\ obs' = NoObs /\ UNCHANGED <<files, nmerge>>

\* data_merge(o1, o2) of two one-stage objects
Merge(o1, o2) ==
    /\ o1 \in 1..Len(objs) /\ o2 \in 1..Len(objs) /\ o1 # o2
    /\ Len(objs) < MaxObjs /\ nmerge < MaxMerges
    /\ objs[o1].inner = 0 /\ objs[o2].inner = 0
    /\ Len(objs[o1].x) + Len(objs[o2].x) <= 3
    /\ objs' = Append(objs, Obj(objs[o1].x \o objs[o2].x, 0, objs[o1].ex \o objs[o2].ex, objs[o1].dir,
                                 IF MergeNames THEN objs[o1].name \o objs[o2].name ELSE objs[o1].name))
    /\ nmerge' = nmerge + 1
    /\ obs' = NoObs /\ UNCHANGED files

\* data_replace(o, "w", new) = copy(): same input, same cache settings and name, fresh cached_batch
Replace(o) ==
    /\ o \in 1..Len(objs) /\ Len(objs) < MaxObjs
    /\ LET me == objs[o] IN
       objs' = Append(objs, Obj(me.x, me.inner, [i \in 1..Len(me.ex) |-> 10 * (Len(objs) + 1) + i], me.dir, me.name))
    /\ obs' = NoObs /\ UNCHANGED <<files, nmerge>>

\* LazyCall(HeavyCall(g), o): a second stage on a one-stage object
Wrap(o) ==
    /\ AllowNested
    /\ o \in 1..Len(objs) /\ Len(objs) < MaxObjs
    /\ objs[o].inner = 0
    /\ objs' = Append(objs, Obj(<<>>, o, <<>>, 0, <<0>>))
    /\ obs' = NoObs /\ UNCHANGED <<files, nmerge>>

Next == \/ \E o \in 1..MaxObjs : \E b \in Batches : Use(o, b)
        \/ \E o \in 1..MaxObjs : \E d \in Dirs : SetCachedFile(o, d)
        \/ \E o1, o2 \in 1..MaxObjs : Merge(o1, o2)
        \/ \E o \in 1..MaxObjs : Replace(o)
        \/ \E o \in 1..MaxObjs : Wrap(o)
Spec == Init /\ [][Next]_vars

--------------------------------------------------------------------------
DepthBound == TLCGet("level") <= MaxDepth

TypeOK == /\ Len(objs) \in NBase..MaxObjs
          /\ \A f, g \in files : f[1] = g[1] => f = g              \* one content per file
          /\ \A o \in 1..Len(objs) : objs[o].dir \in 0..2 /\ objs[o].inner \in 0..(o - 1)
\* stage relation: one object is a stage below the other
RECURSIVE Below(_, _, _)
Below(os, a, b) == os[b].inner # 0 /\ (os[b].inner = a \/ Below(os, a, os[b].inner))
Related(os, a, b) == Below(os, a, b) \/ Below(os, b, a)
InChain(os, o) == os[o].inner # 0 \/ \E p \in 1..Len(os) : os[p].inner = o

\* every use delivers the object's own content.  Theorem with StageNames = TRUE;
\* with StageNames = FALSE only for objects outside a nested chain (UseFaithfulFlat)
UseFaithful == obs.kind = "use" => obs.ok
UseFaithfulFlat == (obs.kind = "use" /\ ~InChain(objs, obs.o)) => obs.ok
\* distinct contents never share a file key
KeyClash(o1, o2, b) == /\ objs[o1].dir = 2 /\ objs[o2].dir = 2
                       /\ KeyOf(objs[o1], b) = KeyOf(objs[o2], b)
                       /\ Content(objs, o1, b) # Content(objs, o2, b)
KeysDistinct == \A o1, o2 \in 1..Len(objs) : \A b \in Batches : ~KeyClash(o1, o2, b)
KeysDistinctFlat == \A o1, o2 \in 1..Len(objs) : \A b \in Batches : KeyClash(o1, o2, b) => Related(objs, o1, o2)
\* a file holds the content of whoever addresses it
FilesTruthful ==
    \A f \in files : \A o \in 1..Len(objs) : \A b \in Batches :
        (objs[o].dir = 2 /\ KeyOf(objs[o], b) = f[1]) => f[2] = Content(objs, o, b)
FilesTruthfulFlat ==
    \A f \in files : \A o \in 1..Len(objs) : \A b \in Batches :
        (objs[o].dir = 2 /\ KeyOf(objs[o], b) = f[1] /\ ~InChain(objs, o)) => f[2] = Content(objs, o, b)
==========================================================================
