------------------------------- MODULE Jets -------------------------------
(* Second-order jets (u, grad u, hess u) over the rationals, and the hand-   *)
(* derived gradient / Hessian / Hessian-vector assembly formulas of tf-pwa   *)
(* (property C07) transcribed from the code and compared with the jets of    *)
(* the NLL definitions (spec/Likelihood.tla) composed in jet arithmetic.     *)
(*                                                                          *)
(* What is trusted: TensorFlow's automatic differentiation of one batch      *)
(* (the inputs below are "the jet of sum_i w_i ln f(x_i)", "the jet of the   *)
(* MC integral", ... exactly what tape.gradient / forward-over-reverse       *)
(* return).  What is checked: everything the code does by hand with those    *)
(* pieces.                                                                   *)
(*                                                                          *)
(*   part "lemma"   : the jet algebra itself (+ * / ln and the general chain *)
(*                    rule are mutually consistent)                          *)
(*   part "default" : model.py:407-449 nll_grad_batch, :513-561              *)
(*                    nll_grad_hessian (outer-product term), :451-511        *)
(*                    grad_hessp_batch; opt_int.py:231-296 (cached_int       *)
(*                    Hessian), :483-558 (cached_amp Hessian-vector)         *)
(*   part "cfit"    : cfit.py:89-132, :134-210 (chain rule through I_sig,    *)
(*                    I_bg), :343-485 (extended terms)                       *)
(*   part "bound"   : variable.py:797 trans_fcn_grad, :823 trans_grad_hessp, *)
(*                    :859 trans_f_grad_hess                                 *)
(*   part "constr"  : model.py:915-986 GaussianConstr, FCN.nll_grad,         *)
(*                    nll_grad_hessian, grad_hessp; CombineFCN               *)
(*   part "hesspkind": which NLL the inherited Model.grad_hessp_batch        *)
(*                    differentiates for the cfit models                     *)
(*   part "sumvar"  : variable.py:1826-1843 SumVar.__call__ (second-order    *)
(*                    reconstruction of the normalisation factors used by    *)
(*                    custom.py BaseCustomModel.nll_grad_hessian)            *)
(*                                                                          *)
(* Rationals are reduced pairs <<n,d>>, d > 0.  The value slot of a          *)
(* logarithm is opaque (Op); only derivative slots are compared for          *)
(* quantities that contain one.                                              *)
EXTENDS Integers, Sequences, FiniteSets, TLC, Json, IOUtils

CONSTANTS
    Part,          \* which family of cases this run enumerates
    Grid,          \* "full": values {1,2,3}, derivatives {-1,0,1}; "small": a sub-grid
    HesspConstr,   \* "zero": FCN.grad_hessp adds no constraint Hessian (model.py:1273); "full": adds H_c p
    TiedConstr,    \* "skip": GaussianConstr skips names not in trainable_vars in grad/hessian but not in the term; "include"
    CfitHessp,     \* "inherited": cfit models use BaseModel.grad_hessp_batch (the default NLL); "own"
    SumVarHess,    \* "sum": SumVar.__call__ uses self.hess (all factors) for every factor; "own"
    CaseFilter     \* "ok": cases the transcribed variants do not affect; "affected": the others

VARIABLE cs
vars == <<cs>>

--------------------------------------------------------------------------
(* rationals                                                                *)
Abs(x) == IF x < 0 THEN -x ELSE x
RECURSIVE GCD(_, _)
GCD(a, b) == IF b = 0 THEN a ELSE GCD(b, a % b)
Norm(n, d) == LET s == IF d < 0 THEN -1 ELSE 1
                  g == GCD(Abs(n), Abs(d))
              IN <<(s * n) \div g, (s * d) \div g>>
QZero == <<0, 1>>
QOne == <<1, 1>>
QInt(k) == <<k, 1>>
QAdd(a, b) == Norm(a[1] * b[2] + b[1] * a[2], a[2] * b[2])
QNeg(a) == <<-a[1], a[2]>>
QSub(a, b) == QAdd(a, QNeg(b))
QMul(a, b) == Norm(a[1] * b[1], a[2] * b[2])
QDiv(a, b) == Norm(a[1] * b[2], a[2] * b[1])
QInv(a) == QDiv(QOne, a)
RECURSIVE QSumF(_, _, _)
QSumF(F, lo, hi) == IF lo > hi THEN QZero ELSE QAdd(F[lo], QSumF(F, lo + 1, hi))

(* vectors and matrices of rationals: functions on 1..n.  TLCEval forces the *)
(* evaluation of a function constructor (TLC would otherwise re-evaluate its *)
(* body at every application, which is exponential in nested jet operations) *)
VZero(n) == TLCEval([i \in 1..n |-> QZero])
MZero(n) == TLCEval([i \in 1..n |-> VZero(n)])
Unit(n, k) == TLCEval([i \in 1..n |-> IF i = k THEN QOne ELSE QZero])
VAdd(a, b) == TLCEval([i \in DOMAIN a |-> QAdd(a[i], b[i])])
VScale(r, a) == TLCEval([i \in DOMAIN a |-> QMul(r, a[i])])
VMulE(a, b) == TLCEval([i \in DOMAIN a |-> QMul(a[i], b[i])])
Dot(a, b) == QSumF([i \in DOMAIN a |-> QMul(a[i], b[i])], 1, Len(a))
MAdd(a, b) == TLCEval([i \in DOMAIN a |-> VAdd(a[i], b[i])])
MScale(r, a) == TLCEval([i \in DOMAIN a |-> VScale(r, a[i])])
Outer(a, b) == TLCEval([i \in DOMAIN a |-> TLCEval([j \in DOMAIN b |-> QMul(a[i], b[j])])])
MVec(m, p) == TLCEval([i \in DOMAIN m |-> Dot(m[i], p)])
Diag(d) == TLCEval([i \in DOMAIN d |-> TLCEval([j \in DOMAIN d |-> IF i = j THEN d[i] ELSE QZero])])
Sym(m) == \A i \in DOMAIN m : \A j \in DOMAIN m : m[i][j] = m[j][i]

--------------------------------------------------------------------------
(* jets                                                                     *)
Op == <<"opaque">>                          \* value of a logarithm
IsOp(x) == Len(x) = 1
OAdd(x, y) == IF IsOp(x) \/ IsOp(y) THEN Op ELSE QAdd(x, y)
OScale(r, x) == IF IsOp(x) THEN Op ELSE QMul(r, x)
Dim(a) == Len(a.g)
Jet(v, g, h) == [v |-> v, g |-> TLCEval(g), h |-> TLCEval(h)]
JConst(n, r) == Jet(r, VZero(n), MZero(n))
JVar(n, k, r) == Jet(r, Unit(n, k), MZero(n))            \* the coordinate function theta_k at theta_k = r
JAdd(a, b) == Jet(OAdd(a.v, b.v), VAdd(a.g, b.g), MAdd(a.h, b.h))
JScale(r, a) == Jet(OScale(r, a.v), VScale(r, a.g), MScale(r, a.h))
JNeg(a) == JScale(<<-1, 1>>, a)
JSub(a, b) == JAdd(a, JNeg(b))
JMul(a, b) ==                                            \* Leibniz
    Jet(QMul(a.v, b.v),
        VAdd(VScale(b.v, a.g), VScale(a.v, b.g)),
        MAdd(MAdd(MScale(b.v, a.h), MScale(a.v, b.h)), MAdd(Outer(a.g, b.g), Outer(b.g, a.g))))
JRecip(a) ==                                             \* 1/u
    LET i1 == QInv(a.v)
        i2 == QMul(i1, i1)
        i3 == QMul(i2, i1)
    IN Jet(i1, VScale(QNeg(i2), a.g), MAdd(MScale(QNeg(i2), a.h), MScale(QMul(QInt(2), i3), Outer(a.g, a.g))))
JDiv(a, b) == JMul(a, JRecip(b))
JLn(a) ==                                                \* ln u, value opaque
    LET i1 == QInv(a.v) IN
    Jet(Op, VScale(i1, a.g), MAdd(MScale(i1, a.h), MScale(QNeg(QMul(i1, i1)), Outer(a.g, a.g))))
\* general chain rule: F an m-variable jet at the point (Ys[1].v .. Ys[m].v), Ys n-variable jets
JCompose(F, Ys) ==
    LET m == Len(Ys)
        n == Dim(Ys[1])
    IN Jet(F.v,
           [i \in 1..n |-> QSumF([k \in 1..m |-> QMul(F.g[k], Ys[k].g[i])], 1, m)],
           [i \in 1..n |-> [j \in 1..n |->
               QAdd(QSumF([k \in 1..m |-> QSumF([l \in 1..m |->
                               QMul(F.h[k][l], QMul(Ys[k].g[i], Ys[l].g[j]))], 1, m)], 1, m),
                    QSumF([k \in 1..m |-> QMul(F.g[k], Ys[k].h[i][j])], 1, m))]])
\* embed a P-variable jet into P+2 variables (no dependence on the two new ones)
Lift(a, n) == LET p == Dim(a) IN
    Jet(a.v, [i \in 1..n |-> IF i <= p THEN a.g[i] ELSE QZero],
        [i \in 1..n |-> [j \in 1..n |-> IF i <= p /\ j <= p THEN a.h[i][j] ELSE QZero]])
DEq(a, b) == a.g = b.g /\ a.h = b.h                      \* equal derivative slots

--------------------------------------------------------------------------
(* the enumerated small jets, P = 2 parameters                              *)
P == 2
Q3 == {<<-1, 1>>, <<0, 1>>, <<1, 1>>}
Vals == IF Grid = "full" THEN {<<1, 1>>, <<2, 1>>, <<3, 1>>} ELSE {<<1, 1>>, <<3, 1>>}
G1 == IF Grid = "full" THEN {<<a, b>> : a \in Q3, b \in Q3}
      ELSE {<<<<1, 1>>, <<-1, 1>>>>, <<<<0, 1>>, <<1, 1>>>>, <<<<-1, 1>>, <<-1, 1>>>>}
H1 == IF Grid = "full" THEN {<<<<a, b>>, <<b, c>>>> : a \in Q3, b \in Q3, c \in Q3}
      ELSE {<<<<QZero, QZero>>, <<QZero, QZero>>>>, <<<<QOne, <<-1, 1>>>>, <<<<-1, 1>>, QZero>>>>,
            <<<<<<-1, 1>>, QOne>>, <<QOne, QOne>>>>}
GridJets == {Jet(v, g, h) : v \in Vals, g \in G1, h \in H1}      \* 729 (full) / 18 (small)
\* a few representative jets for the roles that are not enumerated on the grid
Reps == {Jet(<<2, 1>>, <<QOne, <<-1, 1>>>>, <<<<QOne, QZero>>, <<QZero, <<-1, 1>>>>>>),
         Jet(<<1, 1>>, <<QZero, QOne>>, <<<<QZero, QOne>>, <<QOne, QOne>>>>),
         Jet(<<3, 1>>, <<<<-1, 1>>, <<-1, 1>>>>, <<<<<<-1, 1>>, <<-1, 1>>>>, <<<<-1, 1>>, QZero>>>>),
         Jet(<<1, 2>>, <<<<1, 2>>, QZero>>, <<<<QZero, QZero>>, <<QZero, <<1, 3>>>>>>)}
ConstJets == {JConst(P, <<1, 1>>), JConst(P, <<2, 1>>)}
DerivOnly == {Jet(Op, g, h) : g \in {<<QOne, <<-1, 1>>>>, <<QZero, QOne>>}, h \in {MZero(P), <<<<QOne, <<-1, 1>>>>, <<<<-1, 1>>, <<2, 1>>>>>>}}
SwSet == {<<1, 1>>, <<2, 1>>, <<-1, 2>>}
PhiSet == {<<1, 2>>, <<1, 3>>}
PVecs == {<<QOne, QZero>>, <<QZero, QOne>>, <<QOne, <<-1, 1>>>>, <<<<2, 1>>, <<1, 2>>>>}
\* bound maps y(x) as one-dimensional jets <<y', y''>> at rational points:
\* none; (b-a)(sin x+1)/2+a with (b-a)/2 = 1 at sin x = 0, 3/5, 1, and cos x < 0;
\* a-1+sqrt(x^2+1) at x = 0, 3/4, -4/3;  b+1-sqrt(x^2+1) at the same points
BoundJets == {<<"none", QOne, QZero>>,
              <<"two-sided", QOne, QZero>>, <<"two-sided", <<4, 5>>, <<-3, 5>>>>, <<"two-sided", QZero, <<-1, 1>>>>,
              <<"two-sided", <<-4, 5>>, <<-3, 5>>>>,
              <<"lower", QZero, QOne>>, <<"lower", <<3, 5>>, <<64, 125>>>>, <<"lower", <<-4, 5>>, <<27, 125>>>>,
              <<"upper", QZero, <<-1, 1>>>>, <<"upper", <<-3, 5>>, <<-64, 125>>>>, <<"upper", <<4, 5>>, <<-27, 125>>>>}
\* Gaussian constraints: parameter index, whether the constrained *name* is in
\* trainable_vars (FALSE: the non-head name of a tie group), theta, mean, sigma
ConstrOK == {[k |-> 1, head |-> TRUE, th |-> <<1, 2>>, mu |-> <<1, 1>>, sg |-> <<1, 2>>],
             [k |-> 2, head |-> TRUE, th |-> <<-1, 1>>, mu |-> <<0, 1>>, sg |-> <<2, 1>>]}
ConstrTied == {[k |-> 1, head |-> FALSE, th |-> <<1, 2>>, mu |-> <<1, 1>>, sg |-> <<1, 2>>]}
ConstrLists(S) == {<<>>} \cup {<<c>> : c \in S} \cup {<<c, d>> : c \in S, d \in S}

(* the discrete scenario space of the numerical part of C07 (Part =          *)
(* "scenarios"): which likelihood objects the harness differentiates         *)
(* numerically.  Applicability conditions are written as such.               *)
ScnKinds == {"default", "extended", "cached_int", "cached_amp", "simple", "cfit", "cfit_cached", "cfit_ext", "simple_cfit",
             \* the remaining likelihood models tf_pwa/model/custom.py registers (the harness compares with the registry)
             "simple_clip", "simple_chi2", "constr_frac", "cfit_constr_frac",
             \* MixLogLikehoodFCN (`using_mix_likelihood: True`) over the default / the extended model: nll_grad through
             \* sum_nll_grad_bacth + sum_log_integral_grad_batch (MixGradFormula), Hessian and Hessian-vector product
             \* inherited from CombineFCN over the inner FCN objects
             "mix_default", "mix_extended"}
CachedKinds == {"cached_int", "cached_amp", "cfit_cached"}
Applicable(sc) ==
    \* cached integrals / amplitudes are valid only while no line-shape parameter floats (opt_int.py:133)
    /\ (sc.kind \in CachedKinds => sc.floating = "couplings")
    \* a constraint on the non-head name of a tie group needs a tie group
    \* ("head_and_tied": one constraint on the head and one on the tied name: two terms on one variable)
    /\ (sc.constr \in {"tied", "head_and_tied"} => sc.share = "tie")
    \* bounds can only be put on floating parameters
    /\ (sc.bounds \in {"mass_two", "mixed"} => sc.floating \in {"mass", "mass_width"})
    /\ (sc.bounds = "width_lower" => sc.floating = "mass_width")
    \* background / efficiency functions that depend (non-linearly) on a floating parameter of the same
    \* parameter manager exist for the models that take bg_f / eff_f: Model_cfit, ModelCfitExtended
    \* (then I_bg resp. the efficiency-weighted I_sig have non-zero first and second derivatives: the terms
    \* g_int_bg, h_int_bg of CodeGradCfit / CodeHessCfit, zero for parameter-free columns, are exercised)
    /\ (sc.shape # "columns" => sc.kind \in {"cfit", "cfit_ext"})
    \* a detector-resolution model (every event a weighted group of `resolution` consecutive samples,
    \* `resolution_size` in the data configuration) is taken by Model and Model_cfit (config_loader._get_model)
    /\ (sc.resolution = 2 => sc.kind \in {"default", "extended", "cfit"} /\ sc.shape = "columns")
    \* (the mixed likelihood hands the resolution to the data sum only through the model; not claimed here)
Scenarios ==
    {sc \in [kind : ScnKinds, floating : {"couplings", "mass", "mass_width"},
             bounds : {"none", "coupling_two", "coupling_lower", "coupling_upper", "mass_two", "width_lower", "mixed"},
             share : {"none", "tie"}, constr : {"none", "head", "two_heads", "tied", "head_and_tied"}, batch : {"single", "ragged"},
             shape : {"columns", "bg_param", "eff_param", "bg_eff_param"},
             resolution : {1, 2},
             \* the calls made on ONE likelihood object: "single" = value, gradient, Hessian and one Hessian-vector
             \* product at one point; "sequence" = the same at the points P0, P1, P0 again, with Hessian-vector products
             \* along d1, d2, d1 at each point (state kept between calls -- the cached direction variables of
             \* grad_hessp_batch, cached integrals, compiled functions -- must not leak from one call into the next)
             calls : {"single", "sequence"}] :
        Applicable(sc)}


\* The cases are enumerated in two steps so that TLC's workers share them: an
\* initial state is a *seed* (one element x of SeedSet); the action Expand
\* moves from a seed to every case built on it.  All theorems are about cases.
BoundF == {Jet(<<1, 1>>, g, h) : g \in G1, h \in H1}
SeedSet ==
    IF Part \in {"lemma", "default", "cfit"} THEN GridJets
    ELSE IF Part = "bound" THEN BoundF
    ELSE IF Part = "scenarios" THEN Scenarios
    ELSE Reps
CasesFor(x) ==
    IF Part = "lemma" THEN {[part |-> "lemma", a |-> x, b |-> b] : b \in Reps}
    ELSE IF Part = "default" THEN
        {[part |-> "default", ext |-> e, sw |-> w, im |-> x, ld |-> ld, p |-> p] :
            e \in BOOLEAN, w \in SwSet, ld \in DerivOnly, p \in PVecs}
    ELSE IF Part = "cfit" THEN
        {[part |-> "cfit", ext |-> e, w |-> w, phi |-> f, s |-> x, b |-> b, isg |-> isg, ibg |-> ibg] :
            e \in BOOLEAN, w \in {<<1, 1>>, <<-1, 2>>}, f \in PhiSet,
            b \in ConstJets \cup {Jet(<<1, 1>>, <<QOne, QZero>>, MZero(P))}, isg \in Reps,
            ibg \in ConstJets \cup {Jet(<<2, 1>>, <<QZero, QOne>>, <<<<QOne, QZero>>, <<QZero, QZero>>>>)}}
        \cup
        {[part |-> "cfit", ext |-> e, w |-> <<1, 1>>, phi |-> <<1, 3>>, s |-> s, b |-> JConst(P, <<2, 1>>), isg |-> x, ibg |-> JConst(P, <<1, 1>>)] :
            e \in BOOLEAN, s \in Reps}
    ELSE IF Part = "bound" THEN
        {[part |-> "bound", f |-> x, b1 |-> b1, b2 |-> b2, p |-> p] : b1 \in BoundJets, b2 \in BoundJets, p \in PVecs}
    ELSE IF Part = "constr" THEN
        {[part |-> "constr", n1 |-> x, n2 |-> n2, cl |-> cl, p |-> p] :
            n2 \in {JConst(P, QZero)} \cup Reps,         \* one or two data sets (CombineFCN)
            cl \in (IF CaseFilter = "ok" THEN ConstrLists(ConstrOK) ELSE ConstrLists(ConstrOK \cup ConstrTied)),
            p \in PVecs}
    ELSE IF Part = "hesspkind" THEN
        {[part |-> "hesspkind", ext |-> e, w |-> <<1, 1>>, phi |-> f, s |-> x, b |-> JConst(P, <<1, 1>>), isg |-> isg, ibg |-> JConst(P, <<1, 1>>), p |-> p] :
            e \in BOOLEAN, f \in PhiSet, isg \in Reps, p \in PVecs}
    ELSE IF Part = "sumvar" THEN
        {[part |-> "sumvar", ext |-> FALSE, w |-> <<1, 1>>, phi |-> f, s |-> x, b |-> JConst(P, <<1, 1>>), isg |-> isg, ibg |-> ibg] :
            f \in PhiSet, isg \in Reps, ibg \in ConstJets \cup Reps}
    ELSE IF Part = "scenarios" THEN {[part |-> "scenario", sc |-> x]}
    ELSE {}

Init == cs \in {[part |-> "seed", x |-> x] : x \in SeedSet}
Expand == cs.part = "seed" /\ cs' \in CasesFor(cs.x)
Next == Expand

--------------------------------------------------------------------------
(* part "lemma": the jet algebra                                            *)
LemmaMulDiv == cs.part = "lemma" => JMul(JDiv(cs.a, cs.b), cs.b) = cs.a
LemmaLnMul == cs.part = "lemma" => DEq(JLn(JMul(cs.a, cs.b)), JAdd(JLn(cs.a), JLn(cs.b)))
LemmaComposeMul == cs.part = "lemma" =>
    JCompose(Jet(QMul(cs.a.v, cs.b.v), <<cs.b.v, cs.a.v>>, <<<<QZero, QOne>>, <<QOne, QZero>>>>), <<cs.a, cs.b>>) = JMul(cs.a, cs.b)
LemmaComposeLn == cs.part = "lemma" =>
    DEq(JCompose(Jet(Op, <<QInv(cs.a.v)>>, <<<<QNeg(QMul(QInv(cs.a.v), QInv(cs.a.v)))>>>>), <<cs.a>>), JLn(cs.a))
LemmaSym == cs.part = "lemma" => Sym(JMul(cs.a, cs.b).h) /\ Sym(JDiv(cs.a, cs.b).h) /\ Sym(JLn(cs.a).h)

--------------------------------------------------------------------------
(* part "default": NLL = -LnData + sw int_f(IntMC)                           *)
\* BaseModel.__init__ (model.py:309-316)
IntF(ext, x) == IF ext THEN x ELSE JLn(x)
IntG(ext, x) == IF ext THEN QOne ELSE QInv(x)
IntH(ext, x) == IF ext THEN QZero ELSE QNeg(QMul(QInv(x), QInv(x)))
TrueDefault(c) == JSub(JScale(c.sw, IntF(c.ext, c.im)), c.ld)
\* model.py:442-447   g = -g_ln_data + sw * g_int_mc * int_g(int_mc)
CodeGrad(c) == VAdd(VScale(<<-1, 1>>, c.ld.g), VScale(QMul(c.sw, IntG(c.ext, c.im.v)), c.im.g))
\* model.py:553-559   h = -h_ln_data + sw * g_outer + sw * h_int_mc * int_g, g_outer = outer(g_int, g_int) * int_h
CodeHess(c) == MAdd(MAdd(MScale(<<-1, 1>>, c.ld.h), MScale(QMul(c.sw, IntH(c.ext, c.im.v)), Outer(c.im.g, c.im.g))),
                    MScale(QMul(c.sw, IntG(c.ext, c.im.v)), c.im.h))
\* model.py:504-511   hessp2 = sw*(hessp_int*int_g + g_int*dot(p,g_int)*int_h);  return hessp2 - hessp_ln_data
\* (hessp_* are the forward-over-reverse products H p of sum_grad_hessp)
CodeHessp(c) ==
    VAdd(VScale(c.sw, VAdd(VScale(IntG(c.ext, c.im.v), MVec(c.im.h, c.p)),
                           VScale(QMul(Dot(c.p, c.im.g), IntH(c.ext, c.im.v)), c.im.g))),
         VScale(<<-1, 1>>, MVec(c.ld.h, c.p)))
\* opt_int.py:290-295 (ModelCachedInt.nll_grad_hessian; not extended)
CodeGradCachedInt(c) == VAdd(VScale(<<-1, 1>>, c.ld.g), VScale(QDiv(c.sw, c.im.v), c.im.g))
CodeHessCachedInt(c) ==
    LET gn == VScale(QInv(c.im.v), c.im.g) IN
    MAdd(MAdd(MScale(<<-1, 1>>, c.ld.h), MScale(QNeg(c.sw), Outer(gn, gn))), MScale(QDiv(c.sw, c.im.v), c.im.h))
\* opt_int.py:552-558 (ModelCachedAmp.grad_hessp_batch)
CodeHesspCachedAmp(c) ==
    VAdd(VScale(c.sw, VAdd(VScale(QInv(c.im.v), MVec(c.im.h, c.p)),
                           VScale(QNeg(QDiv(Dot(c.p, c.im.g), QMul(c.im.v, c.im.v))), c.im.g))),
         VScale(<<-1, 1>>, MVec(c.ld.h, c.p)))
GradFormula == cs.part = "default" => CodeGrad(cs) = TrueDefault(cs).g
\* MixLogLikehoodFCN.get_nll_grad (model.py): -sum_nll_grad_bacth(merged data) + sum_k sum_log_integral_grad_batch(k):
\*   value n_k int_f(I_k), gradient n_k int_g(I_k) grad I_k  (model.py:353-363); two data sets: (sw, im) and (2, MixJ2)
MixJ2 == Jet(<<2, 1>>, <<QOne, <<-1, 1>>>>, <<<<QOne, QZero>>, <<QZero, <<-1, 1>>>>>>)
TrueMix(c) == JSub(JAdd(JScale(c.sw, IntF(c.ext, c.im)), JScale(<<2, 1>>, IntF(c.ext, MixJ2))), c.ld)
CodeGradMix(c) == VAdd(VAdd(VScale(<<-1, 1>>, c.ld.g), VScale(QMul(c.sw, IntG(c.ext, c.im.v)), c.im.g)),
                       VScale(QMul(<<2, 1>>, IntG(c.ext, MixJ2.v)), MixJ2.g))
MixGradFormula == cs.part = "default" => CodeGradMix(cs) = TrueMix(cs).g
HessFormula == cs.part = "default" => CodeHess(cs) = TrueDefault(cs).h
HesspFormula == cs.part = "default" => CodeHessp(cs) = MVec(TrueDefault(cs).h, cs.p)
CachedIntFormula == cs.part = "default" /\ ~cs.ext =>
    CodeGradCachedInt(cs) = TrueDefault(cs).g /\ CodeHessCachedInt(cs) = TrueDefault(cs).h
CachedAmpFormula == cs.part = "default" /\ ~cs.ext => CodeHesspCachedAmp(cs) = MVec(TrueDefault(cs).h, cs.p)

--------------------------------------------------------------------------
(* part "cfit"                                                              *)
\* the NLL of one data event in P-variable jet arithmetic (the truth)
MixJ(phi, s, isg, b, ibg) == JAdd(JScale(QSub(QOne, phi), JDiv(s, isg)), JScale(phi, JDiv(b, ibg)))
TrueCfit(c) ==
    LET base == JNeg(JScale(c.w, JLn(MixJ(c.phi, c.s, c.isg, c.b, c.ibg))))
        nexp == JScale(QInv(QSub(QOne, c.phi)), c.isg)
    IN IF c.ext THEN JAdd(base, JAdd(JNeg(JScale(c.w, JLn(nexp))), nexp)) ELSE base
\* what the code differentiates automatically: ll(theta, y1, y2) with the two
\* integrals as extra independent variables (cfit.py:109-126, :179-196)
LLJet(c) ==
    LET n == P + 2
        y1 == JVar(n, P + 1, c.isg.v)
        y2 == JVar(n, P + 2, c.ibg.v)
    IN JScale(c.w, JLn(MixJ(c.phi, Lift(c.s, n), y1, Lift(c.b, n), y2)))
\* cfit.py:127-131 / :199-203, extended :384-392 / :464-472
CodeGradCfit(c) ==
    LET ll == LLJet(c)
        base == [i \in 1..P |-> QSub(QSub(QNeg(ll.g[i]), QMul(c.isg.g[i], ll.g[P + 1])), QMul(c.ibg.g[i], ll.g[P + 2]))]
    IN IF c.ext
       THEN [i \in 1..P |-> QAdd(QSub(base[i], QMul(QDiv(c.w, c.isg.v), c.isg.g[i])), QDiv(c.isg.g[i], QSub(QOne, c.phi)))]
       ELSE base
\* cfit.py:204-210: jac = [eye; g_int_sig; g_int_bg], h = jac^T h_ll jac + g_ll_sig h_int_sig + g_ll_bg h_int_bg; return -h
\* extended (cfit.py:473-485): + sw (h_int_sig/int_sig - outer(g,g)/int_sig^2) - h_int_sig/(1-w_bkg)
CodeHessCfit(c) ==
    LET ll == LLJet(c)
        n == P + 2
        jac == [r \in 1..n |-> IF r <= P THEN Unit(P, r) ELSE IF r = P + 1 THEN c.isg.g ELSE c.ibg.g]     \* (P+2) x P
        jhj == [i \in 1..P |-> [j \in 1..P |->
                  QSumF([r \in 1..n |-> QSumF([t \in 1..n |-> QMul(jac[r][i], QMul(ll.h[r][t], jac[t][j]))], 1, n)], 1, n)]]
        h0 == MAdd(MAdd(jhj, MScale(ll.g[P + 1], c.isg.h)), MScale(ll.g[P + 2], c.ibg.h))
        hx == MAdd(MScale(c.w, MAdd(MScale(QInv(c.isg.v), c.isg.h),
                                   MScale(QNeg(QMul(QInv(c.isg.v), QInv(c.isg.v))), Outer(c.isg.g, c.isg.g)))),
                   MScale(QNeg(QInv(QSub(QOne, c.phi))), c.isg.h))
    IN MScale(<<-1, 1>>, IF c.ext THEN MAdd(h0, hx) ELSE h0)
CfitGradFormula == cs.part = "cfit" => CodeGradCfit(cs) = TrueCfit(cs).g
CfitHessFormula == cs.part = "cfit" => CodeHessCfit(cs) = TrueCfit(cs).h

--------------------------------------------------------------------------
(* part "bound": F(x) = F(y(x)), y_k = y_k(x_k)                              *)
BoundY(c) == << Jet(QOne, <<c.b1[2], QZero>>, <<<<c.b1[3], QZero>>, <<QZero, QZero>>>>),
                Jet(QOne, <<QZero, c.b2[2]>>, <<<<QZero, QZero>>, <<QZero, c.b2[3]>>>>) >>
TrueBound(c) == JCompose(c.f, BoundY(c))
Dydx(c) == <<c.b1[2], c.b2[2]>>
D2ydx2(c) == <<c.b1[3], c.b2[3]>>
\* variable.py:818   grad = grad_yv * dydxs
CodeBoundGrad(c) == VMulE(c.f.g, Dydx(c))
\* variable.py:891-896   dydxs[:,None] * hess_yv * dydxs[None,:] + diag(grad_yv * dydxs2)
CodeBoundHess(c) == MAdd([i \in 1..P |-> [j \in 1..P |-> QMul(Dydx(c)[i], QMul(c.f.h[i][j], Dydx(c)[j]))]],
                         Diag(VMulE(c.f.g, D2ydx2(c))))
\* variable.py:852-855   f(yvals, p*dydxs) -> hessp_yv; hessp_yv*dydxs + grad_yv*dydxs2*p
CodeBoundHessp(c) == VAdd(VMulE(MVec(c.f.h, VMulE(c.p, Dydx(c))), Dydx(c)), VMulE(VMulE(c.f.g, D2ydx2(c)), c.p))
BoundGradFormula == cs.part = "bound" => CodeBoundGrad(cs) = TrueBound(cs).g
BoundHessFormula == cs.part = "bound" => CodeBoundHess(cs) = TrueBound(cs).h
BoundHesspFormula == cs.part = "bound" => CodeBoundHessp(cs) = MVec(TrueBound(cs).h, cs.p)

--------------------------------------------------------------------------
(* part "constr": NLL (one or two data sets) + Gaussian constraints, once    *)
ConstrJet(c) ==                                   \* (theta_k - mu)^2 / (2 sigma^2) in jet arithmetic
    LET d == JSub(JVar(P, c.k, c.th), JConst(P, c.mu))
    IN JScale(QInv(QMul(QInt(2), QMul(c.sg, c.sg))), JMul(d, d))
RECURSIVE SumConstr(_, _)
SumConstr(cl, i) == IF i > Len(cl) THEN JConst(P, QZero) ELSE JAdd(ConstrJet(cl[i]), SumConstr(cl, i + 1))
TrueConstr(c) == JAdd(JAdd(c.n1, c.n2), SumConstr(c.cl, 1))
Counted(c) == c.head \/ TiedConstr = "include"   \* model.py:953 / :973: `if not i in self.vm.trainable_vars: continue`
\* model.py:946-967 get_constrain_grad, :969-986 get_constrain_hessian
CodeConstrGrad(cl) == [i \in 1..P |-> QSumF([x \in 1..Len(cl) |->
        IF cl[x].k = i /\ Counted(cl[x]) THEN QDiv(QSub(cl[x].th, cl[x].mu), QMul(cl[x].sg, cl[x].sg)) ELSE QZero], 1, Len(cl))]
\* hessian[i,i] = h_dict[v]: a dict, the last constraint on a name wins; names are distinct in a dict,
\* so two entries for one parameter index can only be a head and a tied name
CodeConstrHess(cl) == Diag([i \in 1..P |-> QSumF([x \in 1..Len(cl) |->
        IF cl[x].k = i /\ Counted(cl[x]) THEN QInv(QMul(cl[x].sg, cl[x].sg)) ELSE QZero], 1, Len(cl))])
DistinctNames(cl) == \A x, y \in 1..Len(cl) : x # y => <<cl[x].k, cl[x].head>> # <<cl[y].k, cl[y].head>>
\* FCN.nll_grad (model.py:1229), CombineFCN.nll_grad (:1379): sum over data sets + constr_grad
ConstrGradFormula == cs.part = "constr" /\ DistinctNames(cs.cl) =>
    VAdd(VAdd(cs.n1.g, cs.n2.g), CodeConstrGrad(cs.cl)) = TrueConstr(cs).g
\* FCN.nll_grad_hessian (model.py:1265), CombineFCN.nll_grad_hessian (:1409)
ConstrHessFormula == cs.part = "constr" /\ DistinctNames(cs.cl) =>
    MAdd(MAdd(cs.n1.h, cs.n2.h), CodeConstrHess(cs.cl)) = TrueConstr(cs).h
\* FCN.grad_hessp (model.py:1272-1274): constr_hessian = 0.0; CombineFCN.grad_hessp (:1425-1428)
ConstrHesspFormula == cs.part = "constr" /\ DistinctNames(cs.cl) =>
    VAdd(VAdd(MVec(cs.n1.h, cs.p), MVec(cs.n2.h, cs.p)),
         IF HesspConstr = "full" THEN MVec(CodeConstrHess(cs.cl), cs.p) ELSE VZero(P))
      = MVec(TrueConstr(cs).h, cs.p)

--------------------------------------------------------------------------
(* part "hesspkind": Model_cfit / ModelCfitExtended define no grad_hessp_batch; *)
(* Model.grad_hessp_batch (model.py:716-736) hands the batches to             *)
(* BaseModel.grad_hessp_batch, i.e. to the formula of the default NLL         *)
(* -sum w ln|A|^2 + sw ln(int |A|^2)  (efficiency 1 here: sig = |A|^2)        *)
HesspKindFormula == cs.part = "hesspkind" =>
    LET dflt == [ext |-> FALSE, sw |-> cs.w, im |-> cs.isg, ld |-> JScale(cs.w, JLn(cs.s)), p |-> cs.p]
        code == IF CfitHessp = "inherited" THEN CodeHessp(dflt) ELSE MVec(CodeHessCfit(cs), cs.p)
    IN code = MVec(TrueCfit(cs).h, cs.p)

--------------------------------------------------------------------------
(* part "sumvar": custom.py:146-181 rebuilds each normalisation factor as    *)
(* value + g.d + 1/2 d^T H d (SumVar.__call__, variable.py:1835-1841), with  *)
(* self.hess -- the stacked Hessians of *all* factors -- in place of the     *)
(* factor's own; the NLL part is then differentiated automatically           *)
SumVarFormula == cs.part = "sumvar" =>
    LET hs == IF SumVarHess = "sum" THEN MAdd(cs.isg.h, cs.ibg.h) ELSE cs.isg.h
        hb == IF SumVarHess = "sum" THEN MAdd(cs.isg.h, cs.ibg.h) ELSE cs.ibg.h
        code == [cs EXCEPT !.isg = Jet(cs.isg.v, cs.isg.g, hs), !.ibg = Jet(cs.ibg.v, cs.ibg.g, hb)]
    IN DEq(TrueCfit(code), TrueCfit(cs))

--------------------------------------------------------------------------
Post ==
    /\ TLCGet("stats").diameter >= 0
    /\ JsonSerialize(IOEnv.OUT_FILE, [part |-> Part, seeds |-> Cardinality(SeedSet), grid |-> Grid,
                                      scenarios |-> IF Part = "scenarios" THEN Scenarios ELSE {}])
==========================================================================
