--------------------------- MODULE Einsum ---------------------------
(* Tensor-contraction programs "in1,in2,...->out" of the amplitude builder    *)
(* (tf_pwa/amp/core.py DecayChain.get_amp: one operand [core,out1,out2] per   *)
(* decay, the scalar `total` operand, one [j,J] alignment matrix per aligned  *)
(* final particle, ellipsis batch index with broadcasting) and the library's  *)
(* own contraction routine tf_pwa/einsum.py.                                  *)
(*                                                                            *)
(* Two descriptions:                                                          *)
(*  (1) RefFlat(p): declarative semantics -- output entry = sum over the      *)
(*      contracted indices of the product of the operand entries;             *)
(*  (2) an implementation-shaped step machine of tf_pwa.einsum.einsum:        *)
(*      ellipsis expansion (rank check), removal of size-1 indices (a         *)
(*      reshape), ordered_indices (exact arithmetic, for every iteration      *)
(*      order of the Python set of contracted indices), pairwise contraction  *)
(*      along a path (any path: Contract picks any pair), each step being     *)
(*      transpose - reshape - broadcast multiply - reduce_sum on row-major    *)
(*      flat data, final reshape.                                             *)
(* TLC checks (2) = (1) on the bounded domain whenever the order values are    *)
(* pairwise different (ImplEqualsRef).  With StrictOrder = TRUE (the code     *)
(* since /repo 5d2e6c4: ties broken by the index name) that is always the     *)
(* case.  With StrictOrder = FALSE (legacy code) equal order values occur and *)
(* the design is NOT correct: ImplEqualsRefAlways has counterexamples (design *)
(* level finding, was reproduced on the real code; now a regression probe).   *)
(* All programs, operand contents and expected outputs are written as JSON.   *)
EXTENDS Integers, Sequences, FiniteSets, TLC, Json, IOUtils, FiniteSetsExt, SequencesExt, Functions

CONSTANTS Tier,      \* "micro" | "quick" | "thorough": the bounded domain, see Opt
          BatchN,    \* batch size N > 1 of operands that are not broadcast
          StrictOrder, \* FALSE: ordered_indices as in the code (ties possible);
                      \* TRUE : repaired variant, ties broken by the symbol itself
          TableNs    \* numbers of final particles whose programs Post writes out

VARIABLES prog,      \* the program (record, see MkProg)
          pc,        \* "start" | "run" | "done" | "declined" | "raised"
          ord,       \* [rank, tot, tied] result of ordered_indices
          cur        \* set of current operands [src, ix, sh, fl]
vars == <<prog, pc, ord, cur>>

--------------------------------------------------------------------------
(* symbols: batch 0, top 1, final l -> 1+l, inner k -> n+1+k, aligned final   *)
(* (upper-case letter in the code) -> 100+s                                   *)
BATCH == 0
Up(s) == 100 + s
SMIN == -1
SMAX == -2
Letters == <<"a","b","c","d","e","f","g","h","j","k","l","m","n","o","p","q","r","s","t">>
UpLetters == <<"A","B","C","D","E","F","G","H","J","K","L","M","N","O","P","Q","R","S","T">>
SymStr(s) == IF s >= 100 THEN UpLetters[s - 100] ELSE Letters[s]

Prod(s) == FoldLeft(LAMBDA a, b : a * b, 1, s)
SumSeq(s) == FoldLeft(LAMBDA a, b : a + b, 0, s)
\* TLC keeps [x \in S |-> e] unevaluated and re-evaluates e at every application;
\* Force turns a sequence-valued function into an explicit tuple (evaluated once)
Force(s) == SubSeq(s, 1, Len(s))
Strides(sh) == Force([d \in 1..Len(sh) |-> Prod(SubSeq(sh, d + 1, Len(sh)))])
\* multi-index (1-based) of flat position p (1-based) in row-major layout; st = Strides(sh)
UnflatS(p, sh, st) == [d \in 1..Len(sh) |-> (((p - 1) \div st[d]) % sh[d]) + 1]
Unflat(p, sh) == UnflatS(p, sh, Strides(sh))
IndexOf(s, e) == CHOOSE i \in 1..Len(s) : s[i] = e
InSeq(s, e) == \E i \in 1..Len(s) : s[i] = e
MaxOf(S) == CHOOSE x \in S : \A y \in S : x >= y
MinOf(S) == CHOOSE x \in S : \A y \in S : x =< y

--------------------------------------------------------------------------
(* chain shapes from Topology (operators copied from spec/Topology.tla)      *)
Singles(k) == {{l} : l \in 1..k}
Ins(c, S, p) == {IF (S \subseteq T /\ S # T) THEN T \cup {p} ELSE T : T \in c} \cup {S \cup {p}}
RECURSIVE CF(_)
CF(k) == IF k = 1 THEN {{}}
         ELSE UNION {{Ins(c, S, k) : S \in c \cup Singles(k - 1)} : c \in CF(k - 1)}
Sub(c, n, T) == {S \in c \cup Singles(n) : S \subseteq T /\ S # T}
Kids(c, n, T) == {S \in Sub(c, n, T) : ~\E S2 \in Sub(c, n, T) : S \subseteq S2 /\ S # S2}

Pow2 == <<1, 2, 4, 8, 16, 32>>
Code(S) == SumSeq([l \in 1..6 |-> IF l \in S THEN Pow2[l] ELSE 0])
\* inner groupings, largest first
InnerSeq(c, n) == SetToSortSeq(c \ {1..n},
                     LAMBDA x, y : (10 - Cardinality(x)) * 100 + Code(x) < (10 - Cardinality(y)) * 100 + Code(y))
SymOf(c, n, S) == IF S = 1..n THEN 1
                  ELSE IF Cardinality(S) = 1 THEN 1 + (CHOOSE l \in S : TRUE)
                  ELSE n + 1 + IndexOf(InnerSeq(c, n), S)
\* decays top-down: <<core, daughter1, daughter2>>
DecaySeq(c, n) ==
    LET gs == <<1..n>> \o InnerSeq(c, n)
    IN [k \in 1..Len(gs) |->
          LET ks == SetToSortSeq(Kids(c, n, gs[k]), LAMBDA x, y : Code(x) < Code(y))
          IN <<SymOf(c, n, gs[k]), SymOf(c, n, ks[1]), SymOf(c, n, ks[2])>>]

--------------------------------------------------------------------------
(* the program grammar                                                        *)
\* b1 modes: which operands have batch size 1 (broadcast); "scalar": the
\* `total` operand has no batch dimension at all (rank 0)
B1All == {"none", "first", "total", "last", "all", "scalar"}

MkProg(n, c, sz, al, rev, sw, b1) ==
    LET d0 == DecaySeq(c, n)
        d1 == [k \in 1..Len(d0) |-> IF k \in sw THEN <<d0[k][1], d0[k][3], d0[k][2]>> ELSE d0[k]]
        decs == IF rev THEN Reverse(d1) ELSE d1
        isAl(s) == s >= 2 /\ s <= n + 1 /\ al[s - 1] = 1
        alOf(d) == [j \in 1..Len(SelectSeq(<<d[2], d[3]>>, isAl)) |->
                       LET s == SelectSeq(<<d[2], d[3]>>, isAl)[j] IN <<s, Up(s)>>]
        aligns == FlattenSeq([k \in 1..Len(decs) |-> alOf(decs[k])])
        ixs == decs \o << <<>> >> \o aligns
        m == Len(ixs)
        tot == Len(decs) + 1
        bs == [k \in 1..m |->
                 CASE b1 = "none" -> BatchN
                   [] b1 = "first" -> IF k = 1 THEN 1 ELSE BatchN
                   [] b1 = "total" -> IF k = tot THEN 1 ELSE BatchN
                   [] b1 = "last" -> IF k = m THEN 1 ELSE BatchN
                   [] b1 = "all" -> 1
                   [] b1 = "scalar" -> IF k = tot THEN 0 ELSE BatchN]
        out == <<1>> \o [l \in 1..n |-> IF al[l] = 1 THEN Up(1 + l) ELSE 1 + l]
        used == UNION {{ixs[k][j] : j \in 1..Len(ixs[k])} : k \in 1..m}
    IN [ix |-> ixs, bs |-> bs, out |-> out,
        sz |-> [s \in used |-> IF s >= 100 THEN sz[s - 100] ELSE sz[s]]]

NOps(p) == Len(p.ix)
InSyms(p) == DOMAIN p.sz
OutSyms(p) == {p.out[j] : j \in 1..Len(p.out)}
Contr(p) == InSyms(p) \ OutSyms(p)
OutBatch(p) == IF \E k \in 1..NOps(p) : p.bs[k] > 1 THEN BatchN ELSE 1
OutShape(p) == <<OutBatch(p)>> \o [j \in 1..Len(p.out) |-> p.sz[p.out[j]]]
OpShape(p, k) == (IF p.bs[k] = 0 THEN <<>> ELSE <<p.bs[k]>>) \o [j \in 1..Len(p.ix[k]) |-> p.sz[p.ix[k][j]]]
Work(p) == Prod(OutShape(p)) * Prod([j \in 1..Cardinality(Contr(p)) |-> p.sz[SetToSeq(Contr(p))[j]]])

\* the bounded domain: per tier and number n of final particles a set of
\* families [sizes, ones (max. number of size-1 particles), al, rev, sw, b1, work]
Fam(sizes, ones, al, rev, sw, b1, work) ==
    [sizes |-> sizes, ones |-> ones, al |-> al, rev |-> rev, sw |-> sw, b1 |-> b1, work |-> work]
Opt(n) ==
    CASE Tier = "micro" ->
           IF n = 2 THEN {Fam({2}, 0, "any", {FALSE}, "none", {"none", "scalar"}, 100000)}
           ELSE IF n = 3 THEN {Fam({2}, 0, "any", {FALSE}, "all", {"none"}, 100000)} ELSE {}
      [] Tier = "quick" ->
           CASE n = 2 -> {Fam({1, 2}, 1, "any", {FALSE}, "any", B1All \ {"last"}, 100000)}
             [] n = 3 -> {Fam({1, 2}, 1, "any", {FALSE}, "topall", {"none"}, 100000)}
             [] n = 4 -> {Fam({2}, 0, "spin", {FALSE}, "all", {"none"}, 100000)}
             [] OTHER -> {}
      [] Tier = "thorough" ->
           CASE n = 2 -> {Fam({1, 2, 3}, 3, "any", {FALSE}, "any", B1All, 100000)}
             [] n = 3 -> {Fam({1, 2}, 1, "any", {FALSE}, "topall", {"none"}, 100000),
                          Fam({1, 2}, 1, "any", {TRUE}, "all", {"none"}, 100000),
                          Fam({2, 3}, 0, "spin", {FALSE}, "all", {"none"}, 1500),
                          Fam({2}, 0, "any", {FALSE}, "none", B1All, 100000)}
             [] n = 4 -> {Fam({1, 2}, 1, "spin", {FALSE}, "none", {"none"}, 2500)}
             [] OTHER -> {}

AlSet(n, o, sz) ==
    IF o.al = "any" THEN [1..n -> {0, 1}]
    ELSE {[l \in 1..n |-> 0], [l \in 1..n |-> IF sz[1 + l] > 1 THEN 1 ELSE 0]}
SwSet(n, o) ==
    \* which decays list their daughters in the other order: any subset / none or
    \* all / none, the top decay, all ("A: [[D, R_BC]]" in a decay card)
    IF o.sw = "any" THEN SUBSET (1..(n - 1))
    ELSE IF o.sw = "all" THEN {{}, 1..(n - 1)}
    ELSE IF o.sw = "topall" THEN {{}, {1}, 1..(n - 1)} ELSE {{}}
SzSet(n, o) == {sz \in [1..(2 * n - 1) -> o.sizes] : Cardinality({i \in 1..(2 * n - 1) : sz[i] = 1}) <= o.ones}

ProgramsF(n, o) ==
    LET forms == CF(n)
        raw == UNION {{MkProg(n, c, sz, al, rev, sw, b1) :
                         c \in forms, al \in AlSet(n, o, sz), rev \in o.rev, sw \in SwSet(n, o), b1 \in o.b1}
                      : sz \in SzSet(n, o)}
    IN {p \in raw : Work(p) <= o.work /\ Cardinality(Contr(p)) <= 6}
ProgramsN(n) == UNION {ProgramsF(n, o) : o \in Opt(n)}

Programs == UNION {ProgramsN(n) : n \in 2..4}

--------------------------------------------------------------------------
(* operand contents: a fixed small integer function of operand number and    *)
(* multi-index (values in {-2,-1,1,2,3}, not symmetric under axis exchange)  *)
Val(k, mi) == LET h == (3 * k + SumSeq([d \in 1..Len(mi) |-> d * mi[d]])) % 5
              IN IF h = 2 THEN 3 ELSE h - 2
Content(p, k) == LET sh == Force(OpShape(p, k))
                     st == Strides(sh)
                 IN [q \in 1..Prod(sh) |-> Val(k, UnflatS(q, sh, st))]

(* (1) reference semantics                                                    *)
RefFlat(p) ==
    LET osh == Force(OutShape(p))
        ost == Strides(osh)
        cs == SetToSeq(Contr(p))
        csh == Force([j \in 1..Len(cs) |-> p.sz[cs[j]]])
        cst == Strides(csh)
        np == Prod(csh)
        m == NOps(p)
        \* where operand k, axis j takes its index value from: +position in the
        \* output multi-index, or -position in the contracted multi-index
        plan == Force([k \in 1..m |-> Force([j \in 1..Len(p.ix[k]) |->
                    IF InSeq(p.out, p.ix[k][j]) THEN 1 + IndexOf(p.out, p.ix[k][j]) ELSE -IndexOf(cs, p.ix[k][j])])])
        entry(q) ==
            LET mo == Force(UnflatS(q, osh, ost))
                term(t) ==
                    LET mc == Force(UnflatS(t, csh, cst))
                        arg(k) == (IF p.bs[k] = 0 THEN <<>> ELSE <<IF p.bs[k] = 1 THEN 1 ELSE mo[1]>>)
                                  \o [j \in 1..Len(plan[k]) |-> IF plan[k][j] > 0 THEN mo[plan[k][j]] ELSE mc[-plan[k][j]]]
                    IN Prod([k \in 1..m |-> Val(k, arg(k))])
            IN SumSeq([t \in 1..np |-> term(t)])
    IN [q \in 1..Prod(osh) |-> entry(q)]

--------------------------------------------------------------------------
(* (2) implementation-shaped model                                            *)
\* replace_ellipsis: every "..." becomes the same extra symbols, their number
\* taken from the first operand; an operand of a different rank makes
\* contract_path raise (einsum declines, the caller falls back)
Expanded(p) == [k \in 1..NOps(p) |-> [src |-> {k}, ix |-> <<BATCH>> \o p.ix[k], sh |-> OpShape(p, k), fl |-> Content(p, k)]]
RankMismatch(p) == \E k \in 1..NOps(p) : Len(OpShape(p, k)) # 1 + Len(p.ix[k])

\* remove_size1: size_map = largest size seen per symbol; indices of size 1
\* other than the ellipsis symbols are dropped (reshape: flat data unchanged)
SizeMap(p, s) == IF s = BATCH THEN MaxOf({p.bs[k] : k \in 1..NOps(p)}) ELSE p.sz[s]
Removed(p) == {s \in InSyms(p) : p.sz[s] = 1}
Squeeze(p, T) == LET keep == {j \in 1..Len(T.ix) : T.ix[j] \notin Removed(p)}
                     ks == SetToSortSeq(keep, LAMBDA x, y : x < y)
                 IN [src |-> T.src, ix |-> [j \in 1..Len(ks) |-> T.ix[ks[j]]],
                     sh |-> [j \in 1..Len(ks) |-> T.sh[ks[j]]], fl |-> T.fl]
Final2(p) == SelectSeq(<<BATCH>> \o p.out, LAMBDA s : s \notin Removed(p))
FinalShape(p) == [j \in 1..(1 + Len(p.out)) |-> SizeMap(p, (<<BATCH>> \o p.out)[j])]
Ix2(p) == [k \in 1..NOps(p) |-> SelectSeq(<<BATCH>> \o p.ix[k], LAMBDA s : s \notin Removed(p))]
\* len(expr2) = base_order["_max"]
ExprLen(p) == SumSeq([k \in 1..NOps(p) |-> Len(Ix2(p)[k])]) + (NOps(p) - 1) + 2 + Len(Final2(p))

\* ordered_indices in exact arithmetic: values scaled by SC = 100 * 5^6
SC == 1562500
Contr2(p) == Contr(p) \ Removed(p)
Nbr(ixs, s, side) ==
    {IF side = 0
        THEN (IF IndexOf(ixs[k], s) > 1 THEN ixs[k][IndexOf(ixs[k], s) - 1] ELSE SMIN)
        ELSE (IF IndexOf(ixs[k], s) < Len(ixs[k]) THEN ixs[k][IndexOf(ixs[k], s) + 1] ELSE SMAX)
     : k \in {kk \in 1..Len(ixs) : InSeq(ixs[kk], s)}}
RECURSIVE GL(_, _, _, _, _)
GL(bo, ixs, s, side, fuel) ==
    IF s \in DOMAIN bo THEN {bo[s]}
    ELSE IF fuel = 0 THEN {}
    ELSE UNION {GL(bo, ixs, nb, side, fuel - 1) : nb \in Nbr(ixs, s, side)}
RECURSIVE AssignOrd(_, _, _)
AssignOrd(bo, ixs, rest) ==
    IF rest = <<>> THEN bo
    ELSE LET s == Head(rest)
             L == MaxOf(GL(bo, ixs, s, 0, 12))
             R == MinOf(GL(bo, ixs, s, 1, 12))
             v == IF R > L
                    THEN (IF Assert((2 * L + 3 * R) % 5 = 0, "order scale exhausted") THEN (2 * L + 3 * R) \div 5 ELSE 0)
                    ELSE L + SC \div 100
         IN AssignOrd(bo @@ (s :> v), ixs, Tail(rest))

\* perm = iteration order of the Python set `combined_index` (hash dependent)
OrderOfS(p, perm, strict) ==
    LET f2 == Final2(p)
        ixs == Ix2(p)
        bo0 == [s \in {f2[j] : j \in 1..Len(f2)} |-> (IndexOf(f2, s) - 1) * SC]
               @@ (SMIN :> -SC) @@ (SMAX :> ExprLen(p) * SC)
        bo == AssignOrd(bo0, ixs, perm)
        syms == DOMAIN bo \ {SMIN, SMAX}
        val(s) == bo[s]
        \* repaired variant (strict; /repo 5d2e6c4): einsum() re-ranks base_order by
        \* (value, symbol), so every later sort agrees; legacy: equal values stay equal
        rank == [s \in syms |-> Cardinality({t \in syms : val(t) < val(s) \/ (strict /\ val(t) = val(s) /\ t < s)})]
        tied == ~strict /\ \E s, t \in syms : s # t /\ val(s) = val(t)
        \* sorted(set, key=order): stable w.r.t. the set iteration order; the
        \* iteration order is modelled as perm followed by the other symbols
        pri(s) == IF InSeq(perm, s) THEN IndexOf(perm, s) ELSE 50 + (s % 100) + (IF s >= 100 THEN 20 ELSE 0)
        tot == SetToSortSeq(syms, LAMBDA s, t : rank[s] * 1000 + pri(s) < rank[t] * 1000 + pri(t))
    IN [rank |-> rank, tot |-> tot, tied |-> tied]

RECURSIVE PermSeqs(_)
PermSeqs(S) == IF S = {} THEN {<<>>} ELSE UNION {{<<x>> \o q : q \in PermSeqs(S \ {x})} : x \in S}
Rot(s, r) == [j \in 1..Len(s) |-> s[((j + r - 1) % Len(s)) + 1]]
\* all iteration orders for up to MaxPermK contracted indices, otherwise the
\* rotations of the sorted and of the reversed sequence
MaxPermK == IF Tier = "thorough" THEN 5 ELSE 4
OrderOf(p, perm) == OrderOfS(p, perm, StrictOrder)

Perms(p) ==
    LET cs == Contr2(p)
        k == Cardinality(cs)
        asc == SetToSortSeq(cs, LAMBDA x, y : x < y)
    IN IF k <= MaxPermK THEN PermSeqs(cs)
       ELSE {Rot(asc, r) : r \in 0..(k - 1)} \cup {Rot(Reverse(asc), r) : r \in 0..(k - 1)}

\* tensor_einsum_reduce_sum on two parts --------------------------------
Rng(s) == {s[j] : j \in 1..Len(s)}
\* sorted(i, key=order) on the operand's own index string (stable)
AxisPerm(T, o) == SetToSortSeq(1..Len(T.ix), LAMBDA i, j : o.rank[T.ix[i]] * 100 + i < o.rank[T.ix[j]] * 100 + j)
\* tf.transpose(j, trans): new axis k is old axis perm[k]
TransposeFlat(T, perm) ==
    LET nsh == Force([k \in 1..Len(perm) |-> T.sh[perm[k]]])
        nst == Strides(nsh)
        st == Strides(T.sh)
    IN IF \A k \in 1..Len(perm) : perm[k] = k THEN T.fl      \* "if list(i) == sorted_idx: return j"
       ELSE [q \in 1..Prod(nsh) |->
               LET mn == Force(UnflatS(q, nsh, nst))
               IN T.fl[1 + SumSeq([k \in 1..Len(perm) |-> (mn[k] - 1) * st[perm[k]]])]]
\* expand_shape_it: sizes looked up by symbol in the operand's ORIGINAL idx/shape
ExShape(T, req) == Force([d \in 1..Len(req) |-> IF InSeq(T.ix, req[d]) THEN T.sh[IndexOf(T.ix, req[d])] ELSE 1])
BroadcastOK(a, b) == \A d \in 1..Len(a) : a[d] = b[d] \/ a[d] = 1 \/ b[d] = 1
BMul(sa, fa, sb, fb) ==
    LET psh == Force([d \in 1..Len(sa) |-> IF sa[d] > sb[d] THEN sa[d] ELSE sb[d]])
        pst == Strides(psh)
        sta == Strides(sa)
        stb == Strides(sb)
    IN [sh |-> psh,
        fl |-> [q \in 1..Prod(psh) |->
                  LET mq == Force(UnflatS(q, psh, pst))
                  IN fa[1 + SumSeq([d \in 1..Len(sa) |-> IF sa[d] = 1 THEN 0 ELSE (mq[d] - 1) * sta[d]])]
                     * fb[1 + SumSeq([d \in 1..Len(sb) |-> IF sb[d] = 1 THEN 0 ELSE (mq[d] - 1) * stb[d]])]]]
ReduceSum(sh, fl, axes) ==
    LET keep == SetToSortSeq({d \in 1..Len(sh) : d \notin axes}, LAMBDA x, y : x < y)
        sax == SetToSortSeq(axes, LAMBDA x, y : x < y)
        rsh == Force([j \in 1..Len(keep) |-> sh[keep[j]]])
        rst == Strides(rsh)
        ssh == Force([j \in 1..Len(sax) |-> sh[sax[j]]])
        sst == Strides(ssh)
        ns == Prod(ssh)
        st == Strides(sh)
    IN [sh |-> rsh,
        fl |-> [q \in 1..Prod(rsh) |->
                  LET mk == Force(UnflatS(q, rsh, rst))
                      base == SumSeq([j \in 1..Len(keep) |-> (mk[j] - 1) * st[keep[j]]])
                  IN SumSeq([t \in 1..ns |->
                        LET ms == Force(UnflatS(t, ssh, sst))
                        IN fl[1 + base + SumSeq([j \in 1..Len(sax) |-> (ms[j] - 1) * st[sax[j]]])]])]]

\* result of contracting parts A, B given the other operands `others`;
\* ok = FALSE when the broadcast multiply is impossible (raises; only reachable with ties)
Step(p, o, A, B, others) ==
    LET syms == Rng(A.ix) \cup Rng(B.ix)
        rest == Rng(Final2(p)) \cup UNION {Rng(T.ix) : T \in others}
        outIx == SelectSeq(o.tot, LAMBDA s : s \in syms /\ s \in rest)
        req == SelectSeq(o.tot, LAMBDA s : s \in syms)
        fa == TransposeFlat(A, AxisPerm(A, o))
        fb == TransposeFlat(B, AxisPerm(B, o))
        ea == ExShape(A, req)
        eb == ExShape(B, req)
    IN IF ~BroadcastOK(ea, eb) THEN [ok |-> FALSE]
       ELSE LET pr == BMul(eb, fb, ea, fa)     \* ret_1 = s_args.pop() * ...
                rd == ReduceSum(pr.sh, pr.fl, {d \in 1..Len(req) : req[d] \notin Rng(outIx)})
            IN [ok |-> TRUE, t |-> [src |-> A.src \cup B.src, ix |-> outIx, sh |-> rd.sh, fl |-> rd.fl]]

--------------------------------------------------------------------------
(* the step machine                                                           *)
Init == prog \in Programs /\ pc = "start" /\ ord = <<>> /\ cur = {}

Start(perm) ==
    /\ pc = "start"
    /\ IF RankMismatch(prog)
         THEN pc' = "declined" /\ ord' = <<>> /\ cur' = {}
         ELSE /\ pc' = "run"
              /\ ord' = OrderOf(prog, perm)
              /\ cur' = {Squeeze(prog, Expanded(prog)[k]) : k \in 1..NOps(prog)}
    /\ UNCHANGED prog

\* programs with many operands: only the left-fold path is explored
AllPaths(p) == NOps(p) <= (IF Tier = "thorough" THEN 6 ELSE 5)
MinSrc(T) == MinOf(T.src)
Contract(A, B) ==
    /\ pc = "run"
    /\ Cardinality(cur) >= 2
    /\ A \in cur /\ B \in cur /\ MinSrc(A) < MinSrc(B)
    /\ AllPaths(prog) \/ \A T \in cur \ {A, B} : MinSrc(T) > MinSrc(B)
    /\ LET r == Step(prog, ord, A, B, cur \ {A, B})
       IN IF ~r.ok THEN pc' = "raised" /\ cur' = {}
          ELSE /\ cur' = (cur \ {A, B}) \cup {r.t}
               /\ pc' = IF Cardinality(cur) = 2 THEN "done" ELSE "run"
    /\ UNCHANGED <<prog, ord>>

Next == \/ \E perm \in Perms(prog) : Start(perm)
        \/ \E A, B \in cur : Contract(A, B)
Spec == Init /\ [][Next]_vars

\* final tf.reshape(data[0], final_shape): flat data unchanged
Result == (CHOOSE T \in cur : TRUE).fl

--------------------------------------------------------------------------
(* theorems                                                                   *)
TypeOK ==
    /\ pc \in {"start", "run", "done", "declined", "raised"}
    /\ pc = "done" => Cardinality(cur) = 1
    /\ pc = "run" => /\ Cardinality(cur) >= 2
                     /\ UNION {T.src : T \in cur} = 1..NOps(prog)
                     /\ \A T \in cur : Len(T.ix) = Len(T.sh) /\ Len(T.fl) = Prod(T.sh)

\* the algorithm as designed returns the reference contraction
ImplEqualsRef ==
    pc = "done" /\ ~ord.tied =>
        /\ Result = RefFlat(prog)
        /\ (CHOOSE T \in cur : TRUE).ix = Final2(prog)
        /\ Prod(FinalShape(prog)) = Len(Result)
\* an exception inside a contraction step needs equal order values
RaiseOnlyTied == pc = "raised" => ord.tied
\* declining at the rank check happens exactly for the rank-0 `total`
DeclineIffScalar == pc # "start" => ((pc = "declined") <=> RankMismatch(prog))
\* removing size-1 indices keeps the data
SqueezeKeeps == pc = "run" /\ Cardinality(cur) = NOps(prog) => \A T \in cur :
                   T.fl = Content(prog, CHOOSE k \in T.src : TRUE)

\* design-level finding (expected to FAIL while StrictOrder = FALSE)
ImplEqualsRefAlways == pc = "done" => Result = RefFlat(prog)
TieFree == pc \in {"run", "done"} => ~ord.tied

--------------------------------------------------------------------------
(* tables for the harness                                                     *)
ExprOf(p) ==
    LET opstr(k) == "..." \o FoldLeft(LAMBDA a, b : a \o b, "", [j \in 1..Len(p.ix[k]) |-> SymStr(p.ix[k][j])])
        ins == FoldLeft(LAMBDA a, b : IF a = "" THEN b ELSE a \o "," \o b, "", [k \in 1..NOps(p) |-> opstr(k)])
    IN ins \o "->..." \o FoldLeft(LAMBDA a, b : a \o b, "", [j \in 1..Len(p.out) |-> SymStr(p.out[j])])

\* one representative iteration order per distinct ordering result
OrderReps(p) ==
    LET pairs == {<<q, OrderOf(p, q)>> : q \in Perms(p)}
        os == {pr[2] : pr \in pairs}
    IN {LET pr == CHOOSE x \in pairs : x[2] = o
        IN [perm |-> [j \in 1..Len(pr[1]) |-> SymStr(pr[1][j])],
            tied |-> o.tied,
            tot |-> [j \in 1..Len(o.tot) |-> IF o.tot[j] = BATCH THEN "." ELSE SymStr(o.tot[j])]]
        : o \in os}

\* iteration orders under which the LEGACY ordering (equal order values kept) ties:
\* one representative per distinct legacy result; replayed on the code so that a
\* reappearance of the old behaviour is noticed whatever StrictOrder says
LegacyTiedReps(p) ==
    LET pairs == {<<q, OrderOfS(p, q, FALSE)>> : q \in Perms(p)}
        os == {pr[2] : pr \in {x \in pairs : x[2].tied}}
    IN {LET pr == CHOOSE x \in pairs : x[2] = o
        IN [j \in 1..Len(pr[1]) |-> SymStr(pr[1][j])] : o \in os}

Row(p) ==
    [expr |-> ExprOf(p),
     shapes |-> [k \in 1..NOps(p) |-> OpShape(p, k)],
     operands |-> [k \in 1..NOps(p) |-> Content(p, k)],
     out_shape |-> OutShape(p),
     expected |-> RefFlat(p),
     declines |-> RankMismatch(p),
     orders |-> IF RankMismatch(p) THEN {} ELSE OrderReps(p),
     legacy_tied |-> IF RankMismatch(p) THEN {} ELSE LegacyTiedReps(p)]

Post ==
    /\ TLCGet("stats").diameter >= 0
    /\ JsonSerialize(IOEnv.OUT_FILE, [tier |-> Tier, batch |-> BatchN, n_all |-> Cardinality(Programs),
                                       programs |-> {Row(p) : p \in UNION {ProgramsN(n) : n \in TableNs}}])
\* table mode: the programs are the states, nothing moves
InitTable == prog \in UNION {ProgramsN(n) : n \in TableNs} /\ pc = "start" /\ ord = <<>> /\ cur = {}
Stutter == UNCHANGED vars
\* vacuity probe (expected to FAIL): a completed contraction with distinct order values is reachable
NeverDoneUntied == ~(pc = "done" /\ ~ord.tied)

\* design-finding mode: only the programs whose ordering can tie
InitTied == /\ prog \in {p \in Programs : ~RankMismatch(p) /\ \E q \in Perms(p) : OrderOfS(p, q, FALSE).tied}
            /\ pc = "start" /\ ord = <<>> /\ cur = {}
==========================================================================
