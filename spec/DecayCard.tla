--------------------------- MODULE DecayCard ---------------------------
(* A decay card (the `decay` + `particle` sections of a tf-pwa config.yml)  *)
(* and what it denotes: the set of decay chains, the parameter names and    *)
(* the constraints of the model.                                            *)
(*   tf_pwa/config_loader/decay_config.py  decay_item, particle_item,       *)
(*        get_decay_struct, decay_cut (ls_cut)                              *)
(*   tf_pwa/particle.py  BaseParticle.chain_decay / cross_combine           *)
(*   tf_pwa/amp/core.py  get_name, Particle / HelicityDecay / DecayChain    *)
(*        init_params;  config_loader.py add_decay_constraints,             *)
(*        add_particle_constraints                                          *)
(*                                                                          *)
(* A card *body* is a record                                                *)
(*   top    : name of the decaying particle                                 *)
(*   finals : sequence of final-state names                                 *)
(*   lines  : sequence of decay lines [core, outs <<o1,o2>>, pbreak,        *)
(*            cbreak, ll]                                                   *)
(*            (core / outs are particle names or candidate-slot names,      *)
(*             ll = l_list as a set, {} = no restriction; cbreak = FALSE    *)
(*             asks for the C-parity rule C = (-1)^(l+s))                   *)
(*   cands  : slot name -> sequence of candidate names (named lists)        *)
(*   qn     : particle name -> <<2J, P>>                                    *)
(*   cq     : resonance name -> C in {-1, 0, 1} (0 = not given)             *)
(*   float  : resonance name -> "" | "m" | "g" | "mg"                       *)
(*   bnd    : set of resonances that carry m_min / m_max                    *)
(*                                                                          *)
(* Expand(b)  concrete two-body decays for every candidate combination      *)
(* Trees / Chains(b)   all trees from the top built from concrete decays    *)
(*                     whose leaf multiset equals the declared finals       *)
(* Kept(b)    chains all of whose decays have a non-empty allowed (l,s) set *)
(*            (selection rule of LSCoupling.tla, instantiated, not copied)  *)
(* ParamNames / Fixed / Free / Bounded(b)   names and constraints           *)
(*                                                                          *)
(* The card grammar (shape x final-state scheme x J^P assignment x one      *)
(* option site) is the state space: Init picks a card, the theorems         *)
(* (WellFormed, SeqIsSet, ChainShape, KeptSubset, DroppedIff,               *)
(* FlatEquivalent, LineOrder, MirrorSameChains, CUnused, NamesConsistent; their *)
(* conjunction is the invariant Theorems) are evaluated per card, and Post  *)
(* emits every card with what it denotes.                                   *)
EXTENDS Integers, Sequences, SequencesExt, FiniteSets, TLC, Json, IOUtils

CONSTANTS
    Shapes,      \* subset of AllShapes
    Schemes,     \* subset of {"vec", "sca", "bar"}
    MesonJ2,     \* doubled spins offered to the leading resonances, scheme "vec"
    ScalarJ2,    \* same, scheme "sca"
    BaryonJ2,    \* same, scheme "bar"
    DecOpts,     \* subset of {"pbreak", "pball", "l0", "l1"}
    ParOpts,     \* subset of {"float_m", "float_g", "float_mg", "bnd", "float_g_bnd", "float_mg_bnd"}
                 \*   (float / m_min, m_max of the first leading resonance)
    COpts,       \* subset of {"c+", "c-", "cc+", "cc-"}: C = +1/-1 on the first leading resonance,
                 \*   "cc": together with `c_break: False` on its decay lines (meson schemes only)
    AllLines     \* TRUE: a decay option may sit on any line; FALSE: first and last line only

VARIABLE card

\* the (l,s) selection rule: LSCoupling.tla as it is (its variable is not used
\* by the operators we call)
LS == INSTANCE LSCoupling WITH MaxJ2 <- 4, cfg <- card

----------------------------------------------------------------------------
\* generic helpers
\* Range, Reverse, SetToSeq come from SequencesExt / Functions
RECURSIVE Flatten(_)
Flatten(ss) == IF ss = <<>> THEN <<>> ELSE Head(ss) \o Flatten(Tail(ss))
RECURSIVE JoinStr(_)
JoinStr(ss) == IF ss = <<>> THEN "" ELSE Head(ss) \o JoinStr(Tail(ss))
Count(s, x) == Cardinality({i \in DOMAIN s : s[i] = x})
\* a \X b as a sequence of concatenations, a-major (cross_combine)
CrossSeq(a, b) ==
    [k \in 1..(Len(a) * Len(b)) |-> a[((k - 1) \div Len(b)) + 1] \o b[((k - 1) % Len(b)) + 1]]

----------------------------------------------------------------------------
\* the card grammar
L(c, o1, o2) == [core |-> c, outs |-> <<o1, o2>>]
NoCands == [x \in {} |-> <<>>]

AllShapes == {"s3_1", "s3_2", "s3_12", "s3_3", "s3_sh", "s3_e", "s4_c", "s4_c2", "s4_b", "s4_m"}

\* lead: resonances that range over the full J^P set; rest: over a 2-element set
ShapeDef(s) ==
    CASE s = "s3_1" ->
           [finals |-> <<"B", "C", "D">>,
            lines |-> <<L("A", "R_BC", "D"), L("R_BC", "B", "C")>>,
            cands |-> NoCands, lead |-> <<"R_BC">>, rest |-> <<>>]
      [] s = "s3_2" ->
           [finals |-> <<"B", "C", "D">>,
            lines |-> <<L("A", "R_BC", "D"), L("R_BC", "B", "C")>>,
            cands |-> ("R_BC" :> <<"Z1", "Z2">>), lead |-> <<"Z1", "Z2">>, rest |-> <<>>]
      [] s = "s3_12" ->
           [finals |-> <<"B", "C", "D">>,
            lines |-> <<L("A", "R_BC", "D"), L("A", "R_BD", "C"), L("R_BC", "B", "C"), L("R_BD", "B", "D")>>,
            cands |-> ("R_BC" :> <<"Z1", "Z2">>), lead |-> <<"Z1", "R_BD">>, rest |-> <<"Z2">>]
      [] s = "s3_3" ->
           [finals |-> <<"B", "C", "D">>,
            lines |-> <<L("A", "R_BC", "D"), L("A", "R_BD", "C"), L("A", "R_CD", "B"),
                        L("R_BC", "B", "C"), L("R_BD", "B", "D"), L("R_CD", "C", "D")>>,
            cands |-> ("R_BC" :> <<"Z1", "Z2">>) @@ ("R_CD" :> <<"X1">>),
            lead |-> <<"Z1", "X1">>, rest |-> <<"Z2", "R_BD">>]
      [] s = "s3_sh" ->   \* one resonance name offered in two slots: trees with wrong leaves exist
           [finals |-> <<"B", "C", "D">>,
            lines |-> <<L("A", "R_BC", "D"), L("A", "R_BD", "C"), L("R_BC", "B", "C"), L("R_BD", "B", "D")>>,
            cands |-> ("R_BC" :> <<"Z1", "Z2">>) @@ ("R_BD" :> <<"Z1", "Y1">>),
            lead |-> <<"Z1", "Y1">>, rest |-> <<"Z2">>]
      [] s = "s3_e" ->    \* `R_CD: []`: a slot kept for the angles only, it contributes no decay
           [finals |-> <<"B", "C", "D">>,
            lines |-> <<L("A", "R_BC", "D"), L("A", "R_BD", "C"), L("A", "R_CD", "B"),
                        L("R_BC", "B", "C"), L("R_BD", "B", "D"), L("R_CD", "C", "D")>>,
            cands |-> ("R_BC" :> <<"Z1", "Z2">>) @@ ("R_CD" :> <<>>),
            lead |-> <<"Z1", "R_BD">>, rest |-> <<"Z2">>]
      [] s = "s4_c" ->    \* cascade
           [finals |-> <<"B", "C", "D", "E">>,
            lines |-> <<L("A", "X", "E"), L("X", "Y", "D"), L("Y", "B", "C")>>,
            cands |-> ("X" :> <<"X1", "X2">>), lead |-> <<"X1", "Y">>, rest |-> <<"X2">>]
      [] s = "s4_c2" ->   \* cascade, the first resonance has two decay modes
           [finals |-> <<"B", "C", "D", "E">>,
            lines |-> <<L("A", "X", "E"), L("X", "Y", "D"), L("X", "W", "B"), L("Y", "B", "C"), L("W", "C", "D")>>,
            cands |-> ("Y" :> <<"Y1", "Y2">>), lead |-> <<"X", "Y1">>, rest |-> <<"Y2", "W">>]
      [] s = "s4_b" ->    \* branching
           [finals |-> <<"B", "C", "D", "E">>,
            lines |-> <<L("A", "U", "V"), L("U", "B", "C"), L("V", "D", "E")>>,
            cands |-> ("U" :> <<"U1", "U2">>) @@ ("V" :> <<"V1", "V2">>),
            lead |-> <<"U1", "V1">>, rest |-> <<"U2", "V2">>]
      [] s = "s4_m" ->    \* cascade and branching in one card
           [finals |-> <<"B", "C", "D", "E">>,
            lines |-> <<L("A", "X", "E"), L("A", "U", "V"), L("X", "Y", "D"), L("Y", "B", "C"),
                        L("U", "B", "C"), L("V", "D", "E")>>,
            cands |-> ("Y" :> <<"Y1", "Y2">>),
            lead |-> <<"Y1", "U">>, rest |-> <<"X", "Y2", "V">>]

SchemeQN(k) ==
    CASE k = "vec" -> [n \in {"A", "B", "C"} |-> <<2, -1>>] @@ [n \in {"D", "E"} |-> <<0, -1>>]
      [] k = "sca" -> [n \in {"A", "B", "C", "D", "E"} |-> <<0, -1>>]
      [] k = "bar" -> [n \in {"A", "B"} |-> <<1, 1>>] @@ [n \in {"C", "D", "E"} |-> <<0, -1>>]
LeadQN(k) == (CASE k = "bar" -> BaryonJ2 [] k = "sca" -> ScalarJ2 [] OTHER -> MesonJ2) \X {1, -1}
RestQN(k) == IF k = "bar" THEN {<<1, -1>>, <<2, -1>>} ELSE {<<2, -1>>, <<0, 1>>}

QNAssign(s, k) ==
    {l @@ r : l \in [Range(ShapeDef(s).lead) -> LeadQN(k)], r \in [Range(ShapeDef(s).rest) -> RestQN(k)]}

OptLines(s) == IF AllLines THEN 1..Len(ShapeDef(s).lines) ELSE {1, Len(ShapeDef(s).lines)}
\* the C options need integer s in the decays of the first leading resonance: meson schemes
Opts(s, sch) ==
    {[kind |-> "none", at |-> 0]}
      \cup {[kind |-> k, at |-> i] : k \in DecOpts \ {"pball"}, i \in OptLines(s)}
      \cup {[kind |-> k, at |-> 0] : k \in (DecOpts \cap {"pball"}) \cup ParOpts \cup (IF sch = "bar" THEN {} ELSE COpts)}

Cards ==
    UNION {{[shape |-> s, scheme |-> k, qn |-> q, opt |-> o] : q \in QNAssign(s, k), o \in Opts(s, k)} :
             s \in Shapes, k \in Schemes}

Body(c) ==
    LET sd == ShapeDef(c.shape)
        res == Range(sd.lead) \cup Range(sd.rest)
        first == sd.lead[1]
        fl == CASE c.opt.kind = "float_m" -> "m" [] c.opt.kind \in {"float_g", "float_g_bnd"} -> "g"
                [] c.opt.kind \in {"float_mg", "float_mg_bnd"} -> "mg" [] OTHER -> ""
        cfirst == CASE c.opt.kind \in {"c+", "cc+"} -> 1 [] c.opt.kind \in {"c-", "cc-"} -> -1 [] OTHER -> 0
        slotOf(x) == IF x \in DOMAIN sd.cands THEN sd.cands[x] ELSE <<x>>
    IN [top |-> "A",
        finals |-> sd.finals,
        lines |-> [i \in 1..Len(sd.lines) |->
                     [core |-> sd.lines[i].core, outs |-> sd.lines[i].outs,
                      pbreak |-> (c.opt.kind = "pbreak" /\ c.opt.at = i) \/ (c.opt.kind = "pball" /\ sd.lines[i].core = "A"),
                      cbreak |-> ~(c.opt.kind \in {"cc+", "cc-"} /\ first \in Range(slotOf(sd.lines[i].core))),
                      ll |-> IF c.opt.at = i /\ c.opt.kind = "l0" THEN {0}
                             ELSE IF c.opt.at = i /\ c.opt.kind = "l1" THEN {1} ELSE {}]],
        cands |-> sd.cands,
        qn |-> [n \in {"A"} \cup Range(sd.finals) |-> SchemeQN(c.scheme)[n]] @@ c.qn,
        cq |-> [r \in res |-> IF r = first THEN cfirst ELSE 0],
        float |-> [r \in res |-> IF r = first THEN fl ELSE ""],
        bnd |-> IF c.opt.kind \in {"bnd", "float_g_bnd", "float_mg_bnd"} THEN {first} ELSE {}]

----------------------------------------------------------------------------
\* what a body denotes
Cand(b, s) == IF s \in DOMAIN b.cands THEN b.cands[s] ELSE <<s>>

\* one line -> its concrete decays; core candidate slowest, last daughter fastest
ExpandLine(b, i) ==
    LET ln == b.lines[i]
        cs == Cand(b, ln.core)
        o1 == Cand(b, ln.outs[1])
        o2 == Cand(b, ln.outs[2])
        n == Len(o1) * Len(o2)
    IN [k \in 1..(Len(cs) * n) |->
          [core |-> cs[((k - 1) \div n) + 1],
           outs |-> <<o1[(((k - 1) % n) \div Len(o2)) + 1], o2[((k - 1) % Len(o2)) + 1]>>,
           pbreak |-> ln.pbreak, cbreak |-> ln.cbreak, ll |-> ln.ll, line |-> i]]
Expand(b) == Flatten([i \in 1..Len(b.lines) |-> ExpandLine(b, i)])

\* ordered construction (BaseParticle.chain_decay): chains as sequences of indices into E,
\* the decay of the mother first, then the sub-chains of the daughters in order
RECURSIVE SeqChains(_, _)
SeqChains(E, p) ==
    LET ds == SelectSeq([i \in 1..Len(E) |-> i], LAMBDA i : E[i].core = p)
    IN Flatten([k \in 1..Len(ds) |->
          LET d == E[ds[k]]
              c1 == SeqChains(E, d.outs[1])
              c2 == SeqChains(E, d.outs[2])
              h == << <<ds[k]>> >>
              h1 == IF c1 = <<>> THEN h ELSE CrossSeq(h, c1)
          IN IF c2 = <<>> THEN h1 ELSE CrossSeq(h1, c2)])

\* declarative construction: a tree is a set of decays
RECURSIVE Trees(_, _)
Trees(E, p) ==
    LET ds == {i \in 1..Len(E) : E[i].core = p}
    IN IF ds = {} THEN {{}}
       ELSE UNION {{{i} \cup t1 \cup t2 : t1 \in Trees(E, E[i].outs[1]), t2 \in Trees(E, E[i].outs[2])} : i \in ds}

\* leaves of a set of decays, with multiplicity: produced minus decayed
Names(E) == UNION {{E[i].core, E[i].outs[1], E[i].outs[2]} : i \in 1..Len(E)}
Produced(E, t, n) == Cardinality({<<i, j>> \in t \X {1, 2} : E[i].outs[j] = n})
Decayed(E, t, n) == Cardinality({i \in t : E[i].core = n})
LeavesOK(b, E, t) ==
    \A n \in Names(E) \cup Range(b.finals) :
        Produced(E, t, n) - Decayed(E, t, n) = (IF n = b.top THEN -1 ELSE Count(b.finals, n))

AllowedOf(b, d) ==
    LET c == [ja2 |-> b.qn[d.core][1], jb2 |-> b.qn[d.outs[1]][1], jc2 |-> b.qn[d.outs[2]][1],
              pa |-> b.qn[d.core][2], pb |-> b.qn[d.outs[1]][2], pc |-> b.qn[d.outs[2]][2],
              pbreak |-> d.pbreak,
              ca |-> IF d.cbreak \/ d.core \notin DOMAIN b.cq THEN 0 ELSE b.cq[d.core]]
    IN IF d.ll = {} THEN LS!Allowed(c) ELSE LS!RestrictL(c, d.ll)

DecId(d) == <<d.core, {d.outs[1], d.outs[2]}>>       \* identity of a decay: mother, daughter set

\* parameter names (amp/core.py get_name: ':' -> '/', '+' -> '.', no brackets)
DecName(d) == d.core \o "->" \o d.outs[1] \o "." \o d.outs[2]
ChainName(E, c) == JoinStr([k \in 1..Len(c) |-> DecName(E[c[k]])])
TotalNames(E, c) == {ChainName(E, c) \o "_total_0r", ChainName(E, c) \o "_total_0i"}
GlsNames(d, ks) == UNION {{DecName(d) \o "_g_ls_" \o ToString(k) \o "r", DecName(d) \o "_g_ls_" \o ToString(k) \o "i"} : k \in ks}
HasChar(s, ch) == s = ch \/ s = "mg"

\* Everything a body denotes, computed once (TLC does not memoise operators):
\*   E        Expand(b)
\*   al       allowed (l,s) set of every concrete decay (with its l_list)
\*   trees    all trees from the top                      (sets of indices into E)
\*   chains   Chains(b): trees whose leaf multiset is the declared final state
\*   kept     Kept(b): chains all of whose decays have a non-empty allowed set
\*   chainSeq / keptSeq   the same in the loader's order (chain names, "the first chain")
\*   keptIds  kept chains as sets of decay identities (independent of indices / order)
\*   names / fixed / free / bounded   ParamNames(b) and the constraints:
\*       the first kept chain is the reference (total fixed), the first partial wave of every
\*       decay is fixed, masses and widths float only on request; bound dictionary
\*       name -> "range" (m_min, m_max given) | "open" (floating, no range)
Sem(b) ==
    LET E == Expand(b)
        al == [i \in 1..Len(E) |-> AllowedOf(b, E[i])]
        trees == Trees(E, b.top)
        seqs == SeqChains(E, b.top)
        chains == {t \in trees : LeavesOK(b, E, t)}
        kept == {t \in chains : \A i \in t : al[i] # {}}
        chainSeq == SelectSeq(seqs, LAMBDA c : LeavesOK(b, E, Range(c)))
        keptSeq == SelectSeq(chainSeq, LAMBDA c : \A i \in Range(c) : al[i] # {})
        kd == UNION kept
        kres == {E[i].core : i \in kd} \ {b.top}
        names == UNION {TotalNames(E, c) : c \in Range(keptSeq)}
                   \cup UNION {GlsNames(E[i], 0..(Cardinality(al[i]) - 1)) : i \in kd}
                   \cup UNION {{r \o "_mass", r \o "_width"} : r \in kres}
        fixed == (IF keptSeq = <<>> THEN {} ELSE TotalNames(E, keptSeq[1]))
                   \cup UNION {GlsNames(E[i], {0}) : i \in kd}
                   \cup {r \o "_mass" : r \in {x \in kres : ~HasChar(b.float[x], "m")}}
                   \cup {r \o "_width" : r \in {x \in kres : ~HasChar(b.float[x], "g")}}
        bounded == [n \in {r \o "_mass" : r \in {x \in kres : x \in b.bnd \/ HasChar(b.float[x], "m")}}
                           \cup {r \o "_width" : r \in {x \in kres : HasChar(b.float[x], "g")}} |->
                      IF \E r \in b.bnd : n = r \o "_mass" THEN "range" ELSE "open"]
    IN [E |-> E, al |-> al, trees |-> trees, seqs |-> seqs, chains |-> chains, kept |-> kept,
        chainSeq |-> chainSeq, keptSeq |-> keptSeq, kd |-> kd, kres |-> kres,
        keptIds |-> {{DecId(E[i]) : i \in t} : t \in kept},
        names |-> names, fixed |-> fixed, free |-> names \ fixed, bounded |-> bounded]

\* the operators of the design, by name
Chains(b) == Sem(b).chains
Kept(b) == Sem(b).kept
ParamNames(b) == Sem(b).names
Free(b) == Sem(b).free
Bounded(b) == Sem(b).bounded

----------------------------------------------------------------------------
\* equivalent ways of writing the same card (what the harness permutes is
\* first shown not to matter in the specification)
\* candidate lists written out: one line per concrete decay, no named lists
Flat(b) ==
    LET E == Expand(b)
    IN [b EXCEPT !.lines = [i \in 1..Len(E) |-> [core |-> E[i].core, outs |-> E[i].outs, pbreak |-> E[i].pbreak, cbreak |-> E[i].cbreak, ll |-> E[i].ll]],
                 !.cands = NoCands]
\* lines in the opposite order (list order is content only for "the first chain")
RevLines(b) == [b EXCEPT !.lines = Reverse(b.lines)]
\* lines in the opposite order, daughters swapped
Mirror(b) ==
    [b EXCEPT !.lines = Reverse([i \in 1..Len(b.lines) |-> [b.lines[i] EXCEPT !.outs = <<b.lines[i].outs[2], b.lines[i].outs[1]>>]])]

----------------------------------------------------------------------------
Init == card \in Cards
Next == UNCHANGED card

\* ---- theorems about what a body b denotes (s = Sem(b)) ----------------------
\* the grammar itself is sane: every name has quantum numbers, no decay is written twice
WellFormedP(b, s) ==
    /\ Names(s.E) \subseteq DOMAIN b.qn
    /\ \A i, j \in 1..Len(s.E) : DecId(s.E[i]) = DecId(s.E[j]) => i = j
    /\ b.top \notin Range(b.finals)
    /\ \A i \in 1..Len(s.E) : s.E[i].core \notin Range(b.finals)

\* the ordered and the declarative construction give the same chains, none twice
SeqIsSetP(b, s) ==
    LET cs == s.seqs
    IN /\ {Range(cs[k]) : k \in 1..Len(cs)} = s.trees
       /\ Cardinality(s.trees) = Len(cs)
       /\ \A k \in 1..Len(cs) : Cardinality(Range(cs[k])) = Len(cs[k])
       /\ {Range(c) : c \in Range(s.keptSeq)} = s.kept
       /\ {Range(c) : c \in Range(s.chainSeq)} = s.chains

\* every kept chain leads from the top to exactly the finals through declared decays
FromLine(b, d) ==
    LET ln == b.lines[d.line]
    IN /\ d.core \in Range(Cand(b, ln.core))
       /\ d.outs[1] \in Range(Cand(b, ln.outs[1]))
       /\ d.outs[2] \in Range(Cand(b, ln.outs[2]))
       /\ d.pbreak = ln.pbreak /\ d.cbreak = ln.cbreak /\ d.ll = ln.ll
ChainShapeP(b, s) ==
    LET E == s.E
    IN \A t \in s.kept :
        /\ Cardinality({i \in t : E[i].core = b.top}) = 1
        /\ Cardinality(t) = Len(b.finals) - 1
        /\ \A i \in t : FromLine(b, E[i])
        /\ \A i \in t : E[i].core # b.top => Produced(E, t, E[i].core) = 1 /\ Decayed(E, t, E[i].core) = 1
        /\ \A n \in Range(b.finals) : Produced(E, t, n) = Count(b.finals, n) /\ Decayed(E, t, n) = 0
        /\ \A i \in t, j \in {1, 2} : E[i].outs[j] \in Range(b.finals) \/ Decayed(E, t, E[i].outs[j]) = 1

KeptSubsetP(b, s) == s.kept \subseteq s.chains /\ s.chains \subseteq s.trees
\* a chain is dropped iff one of its decays has no allowed (l,s)
DroppedIffP(b, s) == \A t \in s.chains : (t \notin s.kept) <=> (\E i \in t : s.al[i] = {})

\* determinism / completeness at the level of the specification: what a card
\* denotes does not depend on how it is written
Denotes(s) == <<s.keptIds, s.names, s.free, s.bounded>>
FlatEquivalentP(b, s) ==
    LET f == Sem(Flat(b))
    IN Denotes(f) = Denotes(s) /\ f.E = [i \in 1..Len(s.E) |-> [s.E[i] EXCEPT !.line = i]]
\* line order changes the reference chain only
LineOrderP(b, s) ==
    LET r == Sem(RevLines(b))
    IN /\ r.keptIds = s.keptIds /\ r.names = s.names /\ r.bounded = s.bounded
       /\ Cardinality(r.free) = Cardinality(s.free)
       /\ {n \in r.free : n \notin UNION {TotalNames(r.E, c) : c \in Range(r.keptSeq)}}
            = {n \in s.free : n \notin UNION {TotalNames(s.E, c) : c \in Range(s.keptSeq)}}
\* line order and daughter order change names and the reference chain, not the chains
MirrorSameChainsP(b, s) ==
    LET m == Sem(Mirror(b))
    IN m.keptIds = s.keptIds /\ Cardinality(m.names) = Cardinality(s.names)
\* a C quantum number matters only where a decay asks for the C-parity rule
CUnusedP(b, s) ==
    ((\E r \in DOMAIN b.cq : b.cq[r] # 0) /\ (\A i \in 1..Len(b.lines) : b.lines[i].cbreak))
        => Denotes(Sem([b EXCEPT !.cq = [r \in DOMAIN b.cq |-> 0]])) = Denotes(s)
NamesConsistentP(b, s) ==
    /\ s.fixed \subseteq s.names
    /\ DOMAIN s.bounded \subseteq s.names
    /\ Cardinality(s.names) =
         2 * Cardinality(s.kept) + 2 * Cardinality(s.kres)
           + 2 * Cardinality(UNION {{<<i, ls>> : ls \in s.al[i]} : i \in s.kd})

\* ---- the same as invariants of the state space --------------------------------
\* TLC does not memoise Sem, so the model-checking configuration lists the single
\* invariant Theorems (one evaluation of Sem per card); the individual ones are
\* listed instead when Theorems fails, to name the failing theorem.
B == Body(card)
WellFormed == WellFormedP(B, Sem(B))
SeqIsSet == SeqIsSetP(B, Sem(B))
ChainShape == ChainShapeP(B, Sem(B))
KeptSubset == KeptSubsetP(B, Sem(B))
DroppedIff == DroppedIffP(B, Sem(B))
FlatEquivalent == FlatEquivalentP(B, Sem(B))
LineOrder == LineOrderP(B, Sem(B))
MirrorSameChains == MirrorSameChainsP(B, Sem(B))
CUnused == CUnusedP(B, Sem(B))
NamesConsistent == NamesConsistentP(B, Sem(B))
Theorems ==
    LET b == Body(card)
        s == Sem(b)
    IN /\ WellFormedP(b, s) /\ SeqIsSetP(b, s) /\ ChainShapeP(b, s) /\ KeptSubsetP(b, s)
       /\ DroppedIffP(b, s) /\ FlatEquivalentP(b, s) /\ LineOrderP(b, s) /\ MirrorSameChainsP(b, s)
       /\ CUnusedP(b, s) /\ NamesConsistentP(b, s)

CardOut(c) ==
    LET b == Body(c)
        s == Sem(b)
    IN [shape |-> c.shape, scheme |-> c.scheme, opt |-> c.opt,
        qnsel |-> c.qn,
        top |-> b.top, finals |-> b.finals, lines |-> b.lines, cands |-> b.cands,
        slots |-> DOMAIN b.cands,
        qn |-> b.qn, cq |-> b.cq, float |-> b.float, bnd |-> b.bnd,
        expand |-> s.E,
        allowed |-> s.al,
        trees |-> Cardinality(s.trees),
        chains |-> s.chainSeq,
        kept |-> s.keptSeq,
        names |-> s.names, free |-> s.free, bounded |-> s.bounded]

Post ==
    /\ TLCGet("stats").diameter >= 0
    /\ LET cs == SetToSeq(Cards)
       IN JsonSerialize(IOEnv.OUT_FILE, [cards |-> [i \in DOMAIN cs |-> CardOut(cs[i])]])
==========================================================================
