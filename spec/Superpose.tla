--------------------------- MODULE Superpose ---------------------------
(* Linear superposition of decay-chain amplitudes and the fit-fraction sum  *)
(* rule (tf_pwa/amp/core.py DecayGroup.get_amp / sum_amp with chains_idx,    *)
(* set_used_res; tf_pwa/fitfractions.py; tf_pwa/applications.fit_fractions)  *)
(* in exact arithmetic: amplitudes are Gaussian integers <<re, im>>.         *)
(*                                                                           *)
(* A scenario (one TLC state) = coupling of every chain, assignment of the   *)
(* chains to resonances, batch size.  Per chain k, event e and helicity h a  *)
(* fixed Gaussian integer a[k][e][h] plays the role of the chain's           *)
(* amplitude for unit coupling.                                              *)
EXTENDS Integers, Sequences, FiniteSets, TLC, Json, IOUtils, FiniteSetsExt, SequencesExt

CONSTANTS K,        \* chains
          NEv,      \* events
          NHel      \* helicity components

VARIABLES coup,     \* [1..K -> coupling]  (complex `total` of the chain)
          resOf,    \* [1..K -> resonance id]: which resonance the chain contains
          batch     \* batch size used for integrals
vars == <<coup, resOf, batch>>

Chains == 1..K
Events == 1..NEv
Hels == 1..NHel

CAdd(x, y) == <<x[1] + y[1], x[2] + y[2]>>
CMul(x, y) == <<x[1] * y[1] - x[2] * y[2], x[1] * y[2] + x[2] * y[1]>>
Norm2(x) == x[1] * x[1] + x[2] * x[2]
Zero == <<0, 0>>

\* the couplings a fit may produce, on a small lattice (1, i, -1, 2, 1+i, 0)
CL == {<<1, 0>>, <<0, 1>>, <<-1, 0>>, <<2, 0>>, <<1, 1>>, <<0, 0>>}

\* unit-coupling amplitude of chain k: a fixed, non-degenerate table
A(k, e, h) == <<((k * 3 + e * 2 + h) % 5) - 2, ((k + e * e + 2 * h) % 4) - 1>>

CSum(S, f(_)) == FoldSet(LAMBDA x, acc : CAdd(f(x), acc), Zero, S)
ISum(S, f(_)) == FoldSet(LAMBDA x, acc : f(x) + acc, 0, S)

\* amplitude of a set of chains for event e, helicity h
Amp(S, e, h) == LET T(k) == CMul(coup[k], A(k, e, h)) IN CSum(S, T)
\* density of an event
Dens(S, e) == LET D(h) == Norm2(Amp(S, e, h)) IN ISum(Hels, D)
\* integral over a set of events
Integral(S, E) == LET D(e) == Dens(S, e) IN ISum(E, D)

\* chains selected by set_used_res(rs)
ChainsOfRes(rs) == {k \in Chains : resOf[k] \in rs}
Resonances == {resOf[k] : k \in Chains}

\* batches of the event list 1..NEv
NBatches == (NEv + batch - 1) \div batch
BatchOf(i) == {e \in Events : e > (i - 1) * batch /\ e <= i * batch}
IntBatched(S) == LET P(i) == Integral(S, BatchOf(i)) IN ISum(1..NBatches, P)

\* fit fractions as exact numerators over the common denominator Integral(all)
FFnum(r) == Integral(ChainsOfRes({r}), Events)
IFnum(r, s) == Integral(ChainsOfRes({r, s}), Events) - FFnum(r) - FFnum(s)
ResPairs == {p \in Resonances \X Resonances : p[1] < p[2]}

Init ==
    /\ coup \in [Chains -> CL]
    /\ resOf \in {f \in [Chains -> 1..K] : \A k \in Chains : f[k] <= k /\ (k > 1 => \E j \in 1..(k - 1) : f[k] <= f[j] + 1)}
    /\ batch \in 1..(NEv + 1)
Next == UNCHANGED vars

--------------------------------------------------------------------------
(* theorems, one invariant each, evaluated in every scenario                *)
\* the amplitude of a union of disjoint chain sets is the sum of the amplitudes
Linearity ==
    \A S \in SUBSET Chains : \A T \in SUBSET (Chains \ S) : \A e \in Events, h \in Hels :
        Amp(S \cup T, e, h) = CAdd(Amp(S, e, h), Amp(T, e, h))
\* a chain's amplitude is proportional to its own coupling
Proportional ==
    \A k \in Chains, e \in Events, h \in Hels : Amp({k}, e, h) = CMul(coup[k], A(k, e, h))
\* sum rule: single-resonance fractions + all pairwise interference fractions = 1
SumRule ==
    LET F(r) == FFnum(r)
        G(p) == IFnum(p[1], p[2])
    IN ISum(Resonances, F) + ISum(ResPairs, G) = Integral(Chains, Events)
\* integrals do not depend on how the sample is split into batches
BatchIndependent == \A S \in SUBSET Chains : IntBatched(S) = Integral(S, Events)

--------------------------------------------------------------------------
(* selection by resonance names for a group whose chains share resonances    *)
(* (4-body cascade used by the harness: chain k contains the resonances      *)
(* Inner4[k]); set_used_res(rs): chains containing one of rs;                *)
(* set_used_res(rs, only=True): chains all of whose resonances are in rs     *)
Inner4 == <<{1, 2}, {1, 3}, {4, 1}>>
SelAny(rs) == {k \in 1..3 : Inner4[k] \cap rs # {}}
SelOnly(rs) == {k \in 1..3 : Inner4[k] \subseteq rs}
SelectionLemma == \A rs \in SUBSET (1..4) : SelOnly(rs) \subseteq SelAny(rs) /\ SelAny(1..4) = 1..3 /\ SelAny({}) = {}
Post ==
    /\ TLCGet("stats").diameter >= 0
    /\ SelectionLemma
    /\ JsonSerialize(IOEnv.OUT_FILE,
         [selection |-> {<<rs, SelAny(rs), SelOnly(rs)>> : rs \in SUBSET (1..4)}])
==========================================================================
