----------------------------- MODULE CdfInvert -----------------------------
(* Inverse-transform sampling from a piecewise-linear density                *)
(* (tf_pwa/generator/linear_interpolation.py: LinearInterp.integral / solve).*)
(*                                                                           *)
(* A grid is a strictly increasing sequence of rational nodes xs with        *)
(* non-negative rational values ys (zero segments and flat segments          *)
(* included, total integral > 0).  For x on a finer rational lattice the     *)
(* specification evaluates, exactly,                                         *)
(*     Integral(x) = int_{xs[1]}^{x} pdf      and     u = Integral(x)/Total. *)
(* One state per grid; TLC checks the theorems of a cumulative distribution  *)
(* on every grid and writes the pairs (grid, x, u) as JSON; the harness      *)
(* requires LinearInterp.solve(u) = x wherever the inverse is unique,        *)
(* integral(solve(u)) = u * Total and the range everywhere.                  *)
EXTENDS Integers, Sequences, FiniteSets, TLC, Json, IOUtils, SequencesExt

CONSTANTS
    XMax,      \* node numerators range over 0..XMax
    XDens,     \* set of node denominators
    YMax,      \* value numerators 0..YMax
    YDens,     \* set of value denominators
    MaxNodes,  \* grids have 2..MaxNodes nodes
    Sub        \* the probe lattice has Sub points per unit of the node lattice

VARIABLE g   \* [xs |-> increasing node numerators, xd |-> denominator, ys |-> value numerators, yd |-> denominator]
vars == <<g>>

RECURSIVE GCD(_, _)
GCD(a, b) == IF b = 0 THEN a ELSE GCD(b, a % b)
Abs(a) == IF a < 0 THEN -a ELSE a
RNorm(r) == IF r[1] = 0 THEN <<0, 1>>
            ELSE LET g0 == GCD(Abs(r[1]), r[2]) IN <<r[1] \div g0, r[2] \div g0>>
RAdd(a, b) == RNorm(<<a[1] * b[2] + b[1] * a[2], a[2] * b[2]>>)
RSub(a, b) == RNorm(<<a[1] * b[2] - b[1] * a[2], a[2] * b[2]>>)
RMul(a, b) == RNorm(<<a[1] * b[1], a[2] * b[2]>>)
RDiv(a, b) == RMul(a, <<b[2], b[1]>>)                      \* b > 0
RLe(a, b) == a[1] * b[2] <= b[1] * a[2]
RLt(a, b) == a[1] * b[2] < b[1] * a[2]
Zero == <<0, 1>>

\* strictly increasing sequences of length k over 0..m
RECURSIVE IncSeqs(_, _)
IncSeqs(k, m) == IF k = 0 THEN {<<>>}
                 ELSE UNION {{Append(s, x) : x \in (IF Len(s) = 0 THEN 0 ELSE s[Len(s)] + 1)..m} : s \in IncSeqs(k - 1, m)}

GridsOf(k, xd, yd) ==
    {[root |-> FALSE, xs |-> xs, xd |-> xd, ys |-> ys, yd |-> yd] : xs \in IncSeqs(k, XMax), ys \in [1..k -> 0..YMax]}
\* a density needs a positive total: some segment has a positive node
Admissible(gr) == \E i \in 1..Len(gr.ys) : gr.ys[i] > 0

X(gr, i) == RNorm(<<gr.xs[i], gr.xd>>)
Y(gr, i) == RNorm(<<gr.ys[i], gr.yd>>)
NSeg(gr) == Len(gr.xs) - 1

\* integral of the linear piece i from X(i) to x (X(i) <= x <= X(i+1)): trapezoid with the interpolated value at x
Piece(gr, i, x) ==
    LET dx == RSub(x, X(gr, i))
        w == RSub(X(gr, i + 1), X(gr, i))
        slope == RDiv(RSub(Y(gr, i + 1), Y(gr, i)), w)
        yx == RAdd(Y(gr, i), RMul(slope, dx))
    IN RMul(RMul(RAdd(Y(gr, i), yx), dx), <<1, 2>>)
RECURSIVE Cum(_, _)
Cum(gr, i) == IF i = 0 THEN Zero ELSE RAdd(Cum(gr, i - 1), Piece(gr, i, X(gr, i + 1)))   \* int_step[i-1]
Total(gr) == Cum(gr, NSeg(gr))
\* segment of x: the last i with X(i) <= x (the last segment for x = X(n))
SegOf(gr, x) == LET S == {i \in 1..NSeg(gr) : RLe(X(gr, i), x)} IN CHOOSE i \in S : \A j \in S : j <= i
Integral(gr, x) == LET i == SegOf(gr, x) IN RAdd(Cum(gr, i - 1), Piece(gr, i, x))
U(gr, x) == RDiv(Integral(gr, x), Total(gr))

\* probe lattice: multiples of 1/(xd * Sub) between the first and the last node
Probes(gr) == {RNorm(<<k, gr.xd * Sub>>) : k \in (gr.xs[1] * Sub)..(gr.xs[Len(gr.xs)] * Sub)}
\* the inverse is unique at x unless x lies in a closed segment of zero density
InZero(gr, x) == \E i \in 1..NSeg(gr) : gr.ys[i] = 0 /\ gr.ys[i + 1] = 0 /\ RLe(X(gr, i), x) /\ RLe(x, X(gr, i + 1))
LastZero(gr) == gr.ys[Len(gr.ys)] = 0 /\ gr.ys[Len(gr.ys) - 1] = 0

\* One root state per (number of nodes, denominators); its successors are the grids of that
\* class, one state per grid (so that TLC's workers share the evaluation of the theorems).
Roots == {[root |-> TRUE, k |-> k, xd |-> xd, yd |-> yd] : k \in 2..MaxNodes, xd \in XDens, yd \in YDens}
Init == g \in Roots
Next == IF g.root THEN g' \in {gr \in GridsOf(g.k, g.xd, g.yd) : Admissible(gr)} ELSE UNCHANGED vars

\* ---- theorems of a cumulative distribution, per grid
Positive == g.root \/ RLt(Zero, Total(g))
EndPoints == g.root \/ (U(g, X(g, 1)) = Zero /\ U(g, X(g, Len(g.xs))) = <<1, 1>>)
\* probes in increasing order; adjacent pairs suffice (transitivity; every node is a probe)
ProbeSeq(gr) == [k \in 1..((gr.xs[Len(gr.xs)] - gr.xs[1]) * Sub + 1) |-> RNorm(<<gr.xs[1] * Sub + k - 1, gr.xd * Sub>>)]
\* the density vanishes on (a, b): every segment that overlaps (a, b) is a zero segment
ZeroBetween(gr, a, b) == \A i \in 1..NSeg(gr) :
    (RLt(a, X(gr, i + 1)) /\ RLt(X(gr, i), b)) => (gr.ys[i] = 0 /\ gr.ys[i + 1] = 0)
Monotone == g.root \/ (LET p == ProbeSeq(g) IN \A k \in 1..(Len(p) - 1) : RLe(U(g, p[k]), U(g, p[k + 1])))
\* the cumulative function is flat exactly where the density vanishes
StrictOffZero == g.root \/ (LET p == ProbeSeq(g) IN \A k \in 1..(Len(p) - 1) :
    (U(g, p[k]) = U(g, p[k + 1])) <=> ZeroBetween(g, p[k], p[k + 1]))
\* continuity at the nodes: both adjacent pieces give the same cumulative value
NodeContinuity == g.root \/ (\A i \in 2..NSeg(g) : RAdd(Cum(g, i - 2), Piece(g, i - 1, X(g, i))) = Cum(g, i - 1))

Row(gr) == [xs |-> [i \in 1..Len(gr.xs) |-> X(gr, i)],
            ys |-> [i \in 1..Len(gr.ys) |-> Y(gr, i)],
            total |-> Total(gr),
            lastzero |-> LastZero(gr),
            pts |-> {<<x, U(gr, x), InZero(gr, x)>> : x \in Probes(gr)}]

\* the harness selects grids as <<k, xi, yi, j>>: class (k nodes, xi-th / yi-th denominator), j-th grid of the class
Sel == JsonDeserialize(IOEnv.IN_FILE)
XDSeq == SetToSeq(XDens)
YDSeq == SetToSeq(YDens)
PickGrid(t) == LET k == 2 + (t[1] % (MaxNodes - 1))
                   all == SetToSeq({gr \in GridsOf(k, XDSeq[(t[2] % Len(XDSeq)) + 1], YDSeq[(t[3] % Len(YDSeq)) + 1]) : Admissible(gr)})
               IN all[(t[4] % Len(all)) + 1]
Post ==
    /\ TLCGet("stats").diameter >= 0
    /\ JsonSerialize(IOEnv.OUT_FILE, [rows |-> [j \in 1..Len(Sel.idx) |-> Row(PickGrid(Sel.idx[j]))]])
=============================================================================
