---------------------------- MODULE CachedData ----------------------------
(* The configuration-level cached-data file of tf_pwa                       *)
(* (tf_pwa/config_loader/data.py: SimpleData / MultiData .get_data,         *)
(*  process_scale, load_cached_data, save_cached_data, get_all_data;        *)
(*  tf_pwa/config_loader/config_loader.py: get_all_data) -- the Save / Load *)
(* of DatFile.tla one level up, with the weight-scaling step in between.    *)
(*                                                                          *)
(* A sample (data, phsp, bg, inmc) is abstracted to the number of times     *)
(* process_scale has multiplied its weights by n_data / n_sample; -1 = the  *)
(* sample is not configured (None).  Implementation shaped: one session =   *)
(* one ConfigLoader; get_all_data = load_cached_data ; get_data x 4 ;       *)
(* save_cached_data, where get_data returns the entry of the loaded cache   *)
(* if there is one and otherwise reads the files and applies process_scale. *)
(*                                                                          *)
(* Theorem ScaledOnce: whatever the history of sessions (first one writes   *)
(* the file, later ones read it, get_data before or after get_all_data,     *)
(* repeated calls), every sample handed out and every sample in the file    *)
(* has been scaled exactly once if (weight_scale and the sample is in       *)
(* scale_list = {bg}) and never otherwise -- i.e. the cached path and the   *)
(* file path give the same arrays.                                          *)
EXTENDS Integers, FiniteSets, TLC

CONSTANTS MaxSessions

Samples == {"data", "phsp", "bg", "inmc"}
ScaleList == {"bg"}

VARIABLES cfg,      \* [weight_scale, cache (a cached_data file is configured), has_bg, has_inmc,
                    \*  memo (get_data behind functools.lru_cache: ConfigLoader / MultiData; FALSE: SimpleData)]
          disk,     \* the cached-data file: [present, v : sample -> count]
          cached,   \* the session's self.cached_data: [present, v]
          memo,     \* lru_cache of get_data in this session: sample -> count or NONE
          nsess,    \* sessions started
          out       \* what the last call handed out: sample -> count, NONE = not asked
vars == <<cfg, disk, cached, memo, nsess, out>>

NONE == -9
Nothing == [s \in Samples |-> NONE]
Absent == [present |-> FALSE, v |-> Nothing]

Configured(c, s) == s \in {"data", "phsp"} \/ (s = "bg" /\ c.has_bg) \/ (s = "inmc" /\ c.has_inmc)
Expected(c, s) == IF ~Configured(c, s) THEN -1
                  ELSE IF c.weight_scale /\ s \in ScaleList THEN 1 ELSE 0

\* process_scale(idx, data): one more multiplication for the samples in scale_list
Scale(c, s, k) == IF c.weight_scale /\ s \in ScaleList THEN k + 1 ELSE k

\* SimpleData/MultiData.get_data(idx) below the lru_cache
GetDataRaw(c, ch, s) ==
    IF ch.present /\ ch.v[s] # -1 THEN ch.v[s]              \* the cached entry, as saved
    ELSE IF ~Configured(c, s) THEN -1                        \* files is None
    ELSE Scale(c, s, 0)                                      \* load files, then process_scale
\* ConfigLoader.get_data(idx) with functools.lru_cache
GetDataMemo(c, ch, m, s) == IF c.memo /\ m[s] # NONE THEN m[s] ELSE GetDataRaw(c, ch, s)

Init == /\ cfg \in [weight_scale : BOOLEAN, cache : BOOLEAN, has_bg : BOOLEAN, has_inmc : BOOLEAN, memo : BOOLEAN]
        /\ disk = Absent /\ cached = Absent /\ memo = Nothing /\ nsess = 1 /\ out = Nothing

\* a fresh ConfigLoader on the same configuration
NewSession == /\ nsess < MaxSessions
              /\ nsess' = nsess + 1
              /\ cached' = Absent /\ memo' = Nothing /\ out' = Nothing
              /\ UNCHANGED <<cfg, disk>>

\* config.get_data(idx) on its own
GetData(s) == /\ LET v == GetDataMemo(cfg, cached, memo, s) IN
                   /\ memo' = [memo EXCEPT ![s] = v]
                   /\ out' = [Nothing EXCEPT ![s] = v]
              /\ UNCHANGED <<cfg, disk, cached, nsess>>

\* config.get_all_data()
GetAllData ==
    LET ch == IF cfg.cache /\ disk.present /\ ~cached.present THEN disk ELSE cached      \* load_cached_data
        res == [s \in Samples |-> GetDataMemo(cfg, ch, memo, s)]                        \* get_data x 4
    IN /\ cached' = ch
       /\ memo' = res
       /\ out' = res
       /\ disk' = IF cfg.cache /\ ~disk.present THEN [present |-> TRUE, v |-> res] ELSE disk   \* save_cached_data
       /\ UNCHANGED <<cfg, nsess>>

Next == NewSession \/ GetAllData \/ \E s \in Samples : GetData(s)
Spec == Init /\ [][Next]_vars

TypeOK == /\ nsess \in 1..MaxSessions
          /\ disk.present \in BOOLEAN /\ cached.present \in BOOLEAN
ScaledOnce ==
    /\ \A s \in Samples : out[s] # NONE => out[s] = Expected(cfg, s)
    /\ disk.present => \A s \in Samples : disk.v[s] = Expected(cfg, s)
    /\ cached.present => cached = disk
    /\ \A s \in Samples : memo[s] # NONE => memo[s] = Expected(cfg, s)
==========================================================================
