--------------------------- MODULE ErrProp ---------------------------
(* First-order error propagation of value+-error numbers                    *)
(* (tf_pwa/err_num.py: class NumberError, cal_err) and the algebraic        *)
(* skeleton of V_y = y' V_x y' (tf_pwa/variable.py: trans_error_matrix).    *)
(*                                                                          *)
(* Everything is exact rational arithmetic on reduced pairs <<num, den>>,   *)
(* den > 0 (TLC integers are 32 bit: leaves are small; TLC aborts on        *)
(* overflow, it never wraps silently).                                      *)
(*                                                                          *)
(* A state is one expression tree (the history of operator applications     *)
(* that produced a NumberError); an action applies one more operator of     *)
(* the NumberError API to it.  Node = <<tag, left, right, param>>, absent   *)
(* children are <<>> (so that any two nodes are comparable).                *)
(*   "U"     leaf: uncertain number, param = <<vn, vd, en, ed>>,            *)
(*           value vn/vd, sigma en/ed > 0.  Every leaf *occurrence* is an   *)
(*           independent quantity (operands of an operator never share an   *)
(*           uncertain leaf).                                               *)
(*   "neg" "add" "sub" "mul" "div"      NumberError (op) NumberError        *)
(*   "addc" "subc" "mulc" "divc"        NumberError (op) exact constant     *)
(*   "radd" "rsub" "rmul" "rdiv"        exact constant (op) NumberError     *)
(*                                      (no reflected method in the code)   *)
(*   "powc"  NumberError ** integer n   "apply" x.apply(x^n, n x^(n-1))     *)
(*   "cal1" "cal2" "cal2c" "cal2l"      cal_err(f, ...) with exact grad     *)
(*   transcendental (value not rational; structure and domain only, plus a  *)
(*   symbolic form of the error at the root, see SymRule / SymRef):         *)
(*   "exp" "log" "powh" (x ** (n/2)) "powu" (x ** y) "rpow" (c ** x)        *)
(*   "sqrtfd" (x.apply(sqrt), numeric gradient) "sin" (x.apply(sin, cos))   *)
(*                                                                          *)
(* Rule(t) = <<value, s, q>> transcribes the dunder methods of NumberError: *)
(*   error = s * sqrt(q), s in {1,-1}  (where the code takes np.sqrt the    *)
(*   sign is +1; where it multiplies/divides the error by a number the sign *)
(*   of that number is carried).                                            *)
(* Ref(t)  = sum_k (d t / d leaf_k)^2 sigma_k^2 by forward-mode (dual       *)
(*   number) differentiation of the whole tree, one pass per leaf.          *)
(*                                                                          *)
(* Theorems checked on every state (tree):                                  *)
(*   Magnitude         Rule(t).q = Ref(t)          (rational trees, cal_err)*)
(*   ValueAgrees       Rule(t).value = value of the dual evaluation         *)
(*   NegCharacterised  s = -1 /\ q > 0  =>  the tree contains a product or  *)
(*                     quotient with a negative constant / negative divisor *)
(*   TransCharacterised  the symbolic root law can only fail at powu, rpow  *)
(*   NonNegative, TransLaw  sigma >= 0; the logarithmic term of powers.     *)
(*     With AbsFix = LogFix = TRUE (err_num.py as repaired: np.abs in * and *)
(*     /, log(base), abs(log(other))) these are ordinary invariants.  With  *)
(*     the constants FALSE Rule transcribes the code as it was found; they  *)
(*     then are probes *expected to fail* (each run separately; the         *)
(*     counterexample is a design-level finding which the harness           *)
(*     reproduces on the real NumberError).                                 *)
EXTENDS Integers, Sequences, FiniteSets, TLC, Json, IOUtils, SequencesExt

CONSTANTS ULeaves,     \* set of <<vn, vd, en, ed>>
          Consts,      \* set of exact constants <<n, d>>, non-zero
          PowN,        \* integer exponents of "powc"
          Depth,       \* 2 or 3
          ULeaves3, Consts3, PowN3,   \* (smaller) alphabets of the depth-3 family
          ValCap,      \* powc / products are only built over operands with |num|,|den| <= ValCap
          AbsFix,      \* FALSE: err_num.py as found.  TRUE: * and / take np.abs of the number / of the
                       \* divisor's value (repaired code); NonNegative then is an ordinary invariant
          LogFix       \* FALSE: as found.  TRUE: __pow__ uses log(base), __rpow__ uses abs(log(other))

VARIABLES fam, tree
vars == <<fam, tree>>

--------------------------------------------------------------------------
(* exact rationals                                                          *)
Abs(x) == IF x < 0 THEN -x ELSE x
Sgn(x) == IF x > 0 THEN 1 ELSE IF x < 0 THEN -1 ELSE 0
RECURSIVE GCD(_, _)
GCD(a, b) == IF b = 0 THEN a ELSE GCD(b, a % b)          \* a, b >= 0
Q(n, d) == LET g == GCD(Abs(n), Abs(d))
               s == IF d < 0 THEN -1 ELSE 1
           IN <<s * Sgn(n) * (Abs(n) \div g), Abs(d) \div g>>
Zero == <<0, 1>>
One == <<1, 1>>
RInt(n) == <<n, 1>>
RNeg(a) == <<-a[1], a[2]>>
RSgn(a) == Sgn(a[1])
RAbs(a) == <<Abs(a[1]), a[2]>>
RAdd(a, b) == LET g == GCD(a[2], b[2])
              IN Q(a[1] * (b[2] \div g) + b[1] * (a[2] \div g), (a[2] \div g) * b[2])
RSub(a, b) == RAdd(a, RNeg(b))
RMul(a, b) == LET g1 == GCD(Abs(a[1]), b[2])
                  g2 == GCD(Abs(b[1]), a[2])
              IN IF a[1] = 0 \/ b[1] = 0 THEN Zero
                 ELSE <<(a[1] \div g1) * (b[1] \div g2), (a[2] \div g2) * (b[2] \div g1)>>
RInv(a) == IF a[1] < 0 THEN <<-a[2], -a[1]>> ELSE <<a[2], a[1]>>     \* a # 0
RDiv(a, b) == RMul(a, RInv(b))
RSq(a) == RMul(a, a)
RECURSIVE RPowN(_, _)
RPowN(a, n) == IF n = 0 THEN One ELSE RMul(a, RPowN(a, n - 1))       \* n >= 0
RPow(a, n) == IF n >= 0 THEN RPowN(a, n) ELSE RInv(RPowN(a, -n))
RLess(a, b) == RSgn(RSub(a, b)) < 0
Small(a) == Abs(a[1]) <= ValCap /\ a[2] <= ValCap

--------------------------------------------------------------------------
(* trees                                                                    *)
Nil == <<>>
N(tag, l, r, p) == <<tag, l, r, p>>
Leaf(p) == N("U", Nil, Nil, p)

BinOps == {"add", "sub", "mul", "div"}
ConstOps == {"addc", "subc", "mulc", "divc"}
ReflOps == {"radd", "rsub", "rmul", "rdiv"}
CalOps == {"cal1", "cal2", "cal2c", "cal2l"}
RatTags == {"U", "neg", "powc", "apply"} \cup BinOps \cup ConstOps \cup CalOps
TransTags == {"exp", "log", "powh", "powu", "rpow", "sqrtfd", "sin"}

\* the two functions handed to cal_err (those of tf_pwa/tests/test_err_num.py)
\*   f1(x) = 3x + 2x^2 + 1            grad = (3 + 4x)
\*   g2(x,y) = x + y + (x-y)(x+y)     grad = (1 + 2x, 1 - 2y)
F1(x) == RAdd(RAdd(RMul(RInt(3), x), RMul(RInt(2), RSq(x))), One)
F1Grad(x) == RAdd(RInt(3), RMul(RInt(4), x))
G2(x, y) == RAdd(RAdd(x, y), RMul(RSub(x, y), RAdd(x, y)))
G2Grad(x, y) == <<RAdd(One, RMul(RInt(2), x)), RSub(One, RMul(RInt(2), y))>>

\* value of a rational tree (all trees in the families below are defined:
\* the constructors refuse zero divisors)
RECURSIVE Val(_)
Val(t) ==
    LET tag == t[1]
        p == t[4]
        a == Val(t[2])
        b == Val(t[3])
    IN CASE tag = "U" -> <<p[1], p[2]>>
         [] tag = "neg" -> RNeg(a)
         [] tag = "add" -> RAdd(a, b)
         [] tag = "sub" -> RSub(a, b)
         [] tag = "mul" -> RMul(a, b)
         [] tag = "div" -> RDiv(a, b)
         [] tag = "addc" -> RAdd(a, p)
         [] tag = "subc" -> RSub(a, p)
         [] tag = "mulc" -> RMul(a, p)
         [] tag = "divc" -> RDiv(a, p)
         [] tag \in {"powc", "apply"} -> RPow(a, p[1])
         [] tag = "cal1" -> F1(a)
         [] tag = "cal2" -> G2(a, b)
         [] tag = "cal2c" -> G2(a, p)
         [] tag = "cal2l" -> G2(p, b)

\* ---- declarative description of the reachable trees (used for the tables
\* the harness reads; the run checks that Next reaches exactly these) ----
\* one more level of operators (alphabets cs, pn).  The pieces are kept apart:
\* TLC builds each comprehension quickly but a union of large lazily
\* represented sets is quadratic.
PowOK(t, n) == Small(Val(t)) /\ (n <= 0 => RSgn(Val(t)) # 0)
GNeg(S) == {N("neg", t, Nil, <<>>) : t \in S}
GPow(S, pn) == {N("powc", x[1], Nil, <<x[2]>>) : x \in {y \in S \X pn : PowOK(y[1], y[2])}}
GConst(S, cs) == {N(x[1], x[2], Nil, x[3]) : x \in ConstOps \X S \X cs}
GBin(S, R) == {N(x[1], x[2], x[3], <<>>) :
                 x \in {y \in BinOps \X S \X R : y[1] = "div" => RSgn(Val(y[3])) # 0}}
Grow(S, cs, pn) == S \cup GNeg(S) \cup GPow(S, pn) \cup GConst(S, cs) \cup GBin(S, S)

T0 == {Leaf(p) : p \in ULeaves}
T1 == Grow(T0, Consts, PowN)
\* all trees of depth <= 2 = T0 + one operator over depth <= 1 operands
RatPieces2 == <<T0, GNeg(T1), GPow(T1, PowN), GConst(T1, Consts), GBin(T1, T1)>>
\* family "rat3" (only if Depth >= 3), smaller alphabets: all trees of depth
\* <= 2 and one operator over a tree of depth exactly 2, the other operand
\* of a binary operator being a leaf
S0 == IF Depth >= 3 THEN {Leaf(p) : p \in ULeaves3} ELSE {}
S1 == Grow(S0, Consts3, PowN3)
S2 == Grow(S1, Consts3, PowN3)
D2 == S2 \ S1
RatPieces3 == <<S0, GNeg(S1), GPow(S1, PowN3), GConst(S1, Consts3), GBin(S1, S1),
                GNeg(D2), GPow(D2, PowN3), GConst(D2, Consts3), GBin(D2, S0), GBin(S0, D2)>>

\* cal_err / apply at the root over depth <= 1 arguments with tiny values
Tiny(a) == Abs(a[1]) <= 6 /\ a[2] <= 6
CalArgs == {t \in T1 : Tiny(Val(t))}
CalTrees ==
    {N("cal1", t, Nil, <<>>) : t \in CalArgs}
    \cup {N("cal2", x[1], x[2], <<>>) : x \in CalArgs \X CalArgs}
    \cup {N("cal2c", x[1], Nil, x[2]) : x \in CalArgs \X Consts}
    \cup {N("cal2l", Nil, x[2], x[1]) : x \in Consts \X CalArgs}
    \cup {N("apply", x[1], Nil, <<x[2]>>) : x \in {y \in CalArgs \X PowN : PowOK(y[1], y[2])}}

\* constant (op) NumberError: float.__op__ returns NotImplemented and
\* NumberError defines no __radd__/__rsub__/__rmul__/__rtruediv__  -> TypeError
UnsupTrees == {N(x[1], Nil, x[2], x[3]) : x \in ReflOps \X T0 \X Consts}

\* transcendental nodes over rational arguments (domain conditions are the
\* enabling conditions: log and real powers need a positive argument)
Pos(S) == {t \in S : RSgn(Val(t)) > 0}
PosConsts == {c \in Consts : RSgn(c) > 0} \cup {<<1, 3>>, <<2, 1>>}
HalfN == {1, 3, -1}
TransOver(A, B) ==        \* A: arguments, B: exponents of powu
    {N("exp", t, Nil, <<>>) : t \in {u \in A : Small(Val(u))}}
    \cup {N("log", t, Nil, <<>>) : t \in Pos(A)}
    \cup {N("powh", x[1], Nil, <<x[2], 2>>) : x \in Pos(A) \X HalfN}
    \cup {N("powu", x[1], x[2], <<>>) : x \in {y \in Pos(A) \X B : Small(Val(y[2]))}}
    \cup {N("rpow", Nil, x[2], x[1]) : x \in {y \in PosConsts \X A : Small(Val(y[2]))}}
    \cup {N("sqrtfd", t, Nil, <<>>) : t \in Pos(A)}
    \cup {N("sin", t, Nil, <<>>) : t \in {u \in A : Small(Val(u))}}
TT1 == TransOver(T1, T1)
TT1small == TransOver(T0, T0)
\* strictly positive transcendental values may be divided by
PosTag(t) == t[1] \in {"exp", "powh", "powu", "rpow", "sqrtfd"}
TT2 ==
    {N("neg", t, Nil, <<>>) : t \in TT1small}
    \cup {N("powc", t, Nil, <<2>>) : t \in TT1small}
    \cup {N(x[1], x[2], Nil, x[3]) : x \in ConstOps \X TT1small \X Consts}
    \cup {N(x[1], x[2], x[3], <<>>) : x \in {"add", "sub", "mul"} \X TT1small \X T0}
    \cup {N(x[1], x[2], x[3], <<>>) : x \in {"add", "sub", "mul"} \X T0 \X TT1small}
    \cup {N("div", x[1], x[2], <<>>) : x \in TT1small \X T0}
    \cup {N("div", x[1], x[2], <<>>) : x \in {y \in T0 \X TT1small : PosTag(y[2])}}
    \cup {N("exp", N("log", t, Nil, <<>>), Nil, <<>>) : t \in Pos(T0)}
    \cup {N("log", N("exp", t, Nil, <<>>), Nil, <<>>) : t \in T0}

--------------------------------------------------------------------------
(* Rule: the operator rules as implemented (err_num.py)                     *)
\* NumberError abstract value <<value, s, q>>: error = s * sqrt(q)
RECURSIVE Rule(_)
Rule(t) ==
    LET tag == t[1]
        p == t[4]
        a == Rule(t[2])
        b == Rule(t[3])
    IN CASE tag = "U" -> <<<<p[1], p[2]>>, 1, RSq(<<p[3], p[4]>>)>>
         \* __neg__: val = -v ; err = self._error
         [] tag = "neg" -> <<RNeg(a[1]), a[2], a[3]>>
         \* __add__/__sub__ (NumberError): err = np.sqrt(e1**2 + e2**2)
         [] tag = "add" -> <<RAdd(a[1], b[1]), 1, RAdd(a[3], b[3])>>
         [] tag = "sub" -> <<RSub(a[1], b[1]), 1, RAdd(a[3], b[3])>>
         \* __add__/__sub__ (number): err = self._error
         [] tag = "addc" -> <<RAdd(a[1], p), a[2], a[3]>>
         [] tag = "subc" -> <<RSub(a[1], p), a[2], a[3]>>
         \* __mul__ (NumberError): np.sqrt((e1*v2)**2 + (v1*e2)**2)
         [] tag = "mul" -> <<RMul(a[1], b[1]), 1,
                             RAdd(RMul(a[3], RSq(b[1])), RMul(RSq(a[1]), b[3]))>>
         \* __mul__ (number): err = self._error * other
         \* (repaired: err = self._error * np.abs(other))
         [] tag = "mulc" -> <<RMul(a[1], p), IF AbsFix THEN a[2] ELSE a[2] * RSgn(p), RMul(a[3], RSq(p))>>
         \* __truediv__ (NumberError): np.sqrt(e1**2 + (v1*e2/v2)**2) / v2
         \* (repaired: ... / np.abs(v2))
         [] tag = "div" -> <<RDiv(a[1], b[1]), IF AbsFix THEN 1 ELSE RSgn(b[1]),
                             RDiv(RAdd(a[3], RDiv(RMul(RSq(a[1]), b[3]), RSq(b[1]))), RSq(b[1]))>>
         \* __truediv__ (number): err = self._error / other
         [] tag = "divc" -> <<RDiv(a[1], p), IF AbsFix THEN a[2] ELSE a[2] * RSgn(p), RDiv(a[3], RSq(p))>>
         \* __pow__ (number): err = np.abs(other * v ** (other - 1)) * self._error
         \* apply(fun, grad):  err = np.abs(grad(v)) * self._error
         [] tag \in {"powc", "apply"} ->
                <<RPow(a[1], p[1]), a[2],
                  RMul(a[3], RSq(RMul(RInt(p[1]), RPow(a[1], p[1] - 1))))>>
         \* cal_err(fun, *args, grad): err = np.sqrt(sum((g_i * e_i)**2)), e_i = 0 for plain numbers
         [] tag = "cal1" -> <<F1(a[1]), 1, RMul(RSq(F1Grad(a[1])), a[3])>>
         [] tag = "cal2" -> <<G2(a[1], b[1]), 1,
                              RAdd(RMul(RSq(G2Grad(a[1], b[1])[1]), a[3]),
                                   RMul(RSq(G2Grad(a[1], b[1])[2]), b[3]))>>
         [] tag = "cal2c" -> <<G2(a[1], p), 1, RMul(RSq(G2Grad(a[1], p)[1]), a[3])>>
         [] tag = "cal2l" -> <<G2(p, b[1]), 1, RMul(RSq(G2Grad(p, b[1])[2]), b[3])>>

RuleNeg(t) == LET r == Rule(t) IN r[2] = -1 /\ r[3][1] > 0       \* a negative sigma

--------------------------------------------------------------------------
(* Ref: first-order propagation by forward-mode differentiation            *)
RECURSIVE NL(_)
NL(t) == IF t = Nil THEN 0 ELSE IF t[1] = "U" THEN 1 ELSE NL(t[2]) + NL(t[3])
RECURSIVE LeafSeq(_)
LeafSeq(t) == IF t = Nil THEN <<>> ELSE IF t[1] = "U" THEN <<t[4]>> ELSE LeafSeq(t[2]) \o LeafSeq(t[3])

\* dual numbers <<x, dx>>
DC(c) == <<c, Zero>>
DAdd(x, y) == <<RAdd(x[1], y[1]), RAdd(x[2], y[2])>>
DSub(x, y) == <<RSub(x[1], y[1]), RSub(x[2], y[2])>>
DMul(x, y) == <<RMul(x[1], y[1]), RAdd(RMul(x[2], y[1]), RMul(x[1], y[2]))>>
DDiv(x, y) == <<RDiv(x[1], y[1]),
                RDiv(RSub(RMul(x[2], y[1]), RMul(x[1], y[2])), RSq(y[1]))>>
DNeg(x) == <<RNeg(x[1]), RNeg(x[2])>>
DPow(x, n) == <<RPow(x[1], n), RMul(RMul(RInt(n), RPow(x[1], n - 1)), x[2])>>
DF1(x) == DAdd(DAdd(DMul(DC(RInt(3)), x), DMul(DC(RInt(2)), DMul(x, x))), DC(One))
DG2(x, y) == DAdd(DAdd(x, y), DMul(DSub(x, y), DAdd(x, y)))

\* Dual(t, k): value and derivative with respect to the k-th leaf of t in
\* left-to-right order (k = 0 or k > NL(t): derivative 0)
RECURSIVE Dual(_, _)
Dual(t, k) ==
    LET tag == t[1]
        p == t[4]
        nl == NL(t[2])
        a == Dual(t[2], IF k <= nl THEN k ELSE 0)
        b == Dual(t[3], IF k > nl THEN k - nl ELSE 0)
    IN CASE tag = "U" -> <<<<p[1], p[2]>>, IF k = 1 THEN One ELSE Zero>>
         [] tag = "neg" -> DNeg(a)
         [] tag = "add" -> DAdd(a, b)
         [] tag = "sub" -> DSub(a, b)
         [] tag = "mul" -> DMul(a, b)
         [] tag = "div" -> DDiv(a, b)
         [] tag = "addc" -> DAdd(a, DC(p))
         [] tag = "subc" -> DSub(a, DC(p))
         [] tag = "mulc" -> DMul(a, DC(p))
         [] tag = "divc" -> DDiv(a, DC(p))
         [] tag \in {"powc", "apply"} -> DPow(a, p[1])
         [] tag = "cal1" -> DF1(a)
         [] tag = "cal2" -> DG2(a, b)
         [] tag = "cal2c" -> DG2(a, DC(p))
         [] tag = "cal2l" -> DG2(DC(p), b)

Grad(t) == [k \in 1..NL(t) |-> Dual(t, k)[2]]
RECURSIVE SumTo(_, _)
SumTo(f, n) == IF n = 0 THEN Zero ELSE RAdd(SumTo(f, n - 1), f[n])
RefG(t, g) == LET ls == LeafSeq(t)
              IN SumTo([k \in 1..NL(t) |-> RMul(RSq(g[k]), RSq(<<ls[k][3], ls[k][4]>>))], NL(t))
Ref(t) == RefG(t, Grad(t))

\* where a negative sigma can come from in Rule
RECURSIVE HasNegScale(_)
HasNegScale(t) ==
    IF t = Nil \/ t[1] = "U" THEN FALSE
    ELSE \/ (t[1] \in {"mulc", "divc"} /\ RSgn(t[4]) < 0)
         \/ (t[1] = "div" /\ RSgn(Val(t[3])) < 0)
         \/ HasNegScale(t[2])
         \/ HasNegScale(t[3])

--------------------------------------------------------------------------
(* symbolic root law for transcendental nodes over rational arguments       *)
(* form <<kind, r0, r1, rho, s>>:                                           *)
(*   kind "rel": (error/value)^2 = r0 + r1 * ln(rho)^2      (value > 0)     *)
(*   kind "abs":  error^2        = r0                                       *)
(*   kind "nan": the code takes the logarithm of a non-positive number      *)
(*   s: sign of the error                                                   *)
IsT1(t) == t[1] \in {"exp", "log", "powh", "powu", "rpow"} /\ (t[2] = Nil \/ t[2][1] \in RatTags) /\ (t[3] = Nil \/ t[3][1] \in RatTags)
LnSign(r) == IF RLess(One, r) THEN 1 ELSE IF RLess(r, One) THEN -1 ELSE 0
SymRule(t) ==
    LET tag == t[1]
        p == t[4]
        a == Rule(t[2])
        b == Rule(t[3])
    IN CASE tag = "exp" -> <<"rel", a[3], Zero, One, a[2]>>              \* err = val * e
         [] tag = "log" -> <<"abs", RDiv(a[3], RSq(a[1])), Zero, One, a[2]>>    \* err = e / |v|
         \* __pow__ (number): |other * v**(other-1)| * e = val * |other / v| * e
         [] tag = "powh" -> <<"rel", RMul(a[3], RSq(RDiv(p, a[1]))), Zero, One, a[2]>>
         \* __pow__ (NumberError): err1 = b * v**(b-1) * ea ; err2 = np.log(other._value) * val * eb
         \* (repaired: err2 = np.log(self._value) * val * eb)
         [] tag = "powu" -> IF LogFix THEN <<"rel", RMul(a[3], RSq(RDiv(b[1], a[1]))), b[3], a[1], 1>>
                            ELSE IF RSgn(b[1]) <= 0 THEN <<"nan", Zero, Zero, One, 1>>
                            ELSE <<"rel", RMul(a[3], RSq(RDiv(b[1], a[1]))), b[3], b[1], 1>>
         \* __rpow__: val = other ** v ; err = np.log(self._value) * val * self._error
         \* (repaired: err = np.abs(np.log(other)) * val * self._error)
         [] tag = "rpow" -> IF LogFix THEN <<"rel", Zero, b[3], p, b[2]>>
                            ELSE IF RSgn(b[1]) <= 0 THEN <<"nan", Zero, Zero, One, 1>>
                            ELSE <<"rel", Zero, b[3], b[1], b[2] * LnSign(b[1])>>
SymRef(t) ==
    LET tag == t[1]
        p == t[4]
        va == Val(t[2])
        vb == Val(t[3])
    IN CASE tag = "exp" -> <<"rel", Ref(t[2]), Zero, One, 1>>
         [] tag = "log" -> <<"abs", RDiv(Ref(t[2]), RSq(va)), Zero, One, 1>>
         [] tag = "powh" -> <<"rel", RMul(Ref(t[2]), RSq(RDiv(p, va))), Zero, One, 1>>
         \* d(a^b) = a^b (b/a da + ln(a) db)
         [] tag = "powu" -> <<"rel", RMul(Ref(t[2]), RSq(RDiv(vb, va))), Ref(t[3]), va, 1>>
         \* d(c^x) = c^x ln(c) dx
         [] tag = "rpow" -> <<"rel", Zero, Ref(t[3]), p, 1>>
\* ln(x)^2 = ln(y)^2 for positive rationals iff x = y or x y = 1
LZero(x) == x[3] = Zero \/ LnSign(x[4]) = 0          \* the logarithmic term vanishes
SymMagEq(x, y) ==
    /\ x[1] = y[1]
    /\ x[2] = y[2]
    /\ \/ (LZero(x) /\ LZero(y))
       \/ (~LZero(x) /\ ~LZero(y) /\ x[3] = y[3] /\ (x[4] = y[4] \/ RMul(x[4], y[4]) = One))
SymZero(x) == x[1] # "nan" /\ x[2] = Zero /\ LZero(x)
TransLawOK(t) == SymMagEq(SymRule(t), SymRef(t)) /\ (SymRule(t)[5] >= 0 \/ SymZero(SymRule(t)))
TransMagOK(t) == SymMagEq(SymRule(t), SymRef(t))

--------------------------------------------------------------------------
(* V_y = y' V_x y' : congruence with a diagonal Jacobian (trans_error_matrix)*)
BKinds == {"none", "both", "lower", "upper"}
NB == 3
BoundCfgs == [1..NB -> BKinds]
\* stand-in slopes (dy/dx at the point) per kind, and a symmetric test matrix
Slope(k) == CASE k = "none" -> One [] k = "both" -> <<-1, 2>> [] k = "lower" -> <<2, 3>> [] k = "upper" -> <<-3, 2>>
VTest == <<<<RInt(4), RInt(-1), <<1, 2>>>>, <<RInt(-1), RInt(3), RInt(2)>>, <<<<1, 2>>, RInt(2), RInt(5)>>>>
\* trans_error_matrix: dydx[:, None] * V * dydx[None, :]
TransErr(c) == [i \in 1..NB |-> [j \in 1..NB |-> RMul(RMul(Slope(c[i]), VTest[i][j]), Slope(c[j]))]]
\* J V J^T with J = diag(slopes), written out as the double sum
JMat(c) == [i \in 1..NB |-> [j \in 1..NB |-> IF i = j THEN Slope(c[i]) ELSE Zero]]
JVJt(c) == [i \in 1..NB |-> [j \in 1..NB |->
              SumTo([k \in 1..NB |-> SumTo([l \in 1..NB |-> RMul(RMul(JMat(c)[i][k], VTest[k][l]), JMat(c)[j][l])], NB)], NB)]]

--------------------------------------------------------------------------
(* the step machine: one action per operator of the NumberError API         *)
RECURSIVE TD(_)
TD(t) == IF t = Nil THEN -1
         ELSE IF t[1] = "U" THEN 0
         ELSE 1 + (IF TD(t[2]) > TD(t[3]) THEN TD(t[2]) ELSE TD(t[3]))
RatFam == fam \in {"rat", "rat3"}
CS == IF fam = "rat3" THEN Consts3 ELSE Consts
PN == IF fam = "rat3" THEN PowN3 ELSE PowN
MaxD == IF fam = "rat3" THEN 3 ELSE 2
\* operands the current tree may be combined with
Partners == IF fam = "rat" THEN T1
            ELSE IF fam = "rat3" THEN (IF TD(tree) <= 1 THEN S1 ELSE S0)
            ELSE {}
Grows == RatFam /\ TD(tree) < MaxD

Init == \/ (fam = "rat" /\ tree \in T0)
        \/ (fam = "rat3" /\ tree \in S0)
        \/ (fam = "bound" /\ tree \in BoundCfgs)

Neg == Grows /\ tree' = N("neg", tree, Nil, <<>>) /\ UNCHANGED fam
PowC(n) == Grows /\ PowOK(tree, n) /\ tree' = N("powc", tree, Nil, <<n>>) /\ UNCHANGED fam
OpConst(op, c) == Grows /\ tree' = N(op, tree, Nil, c) /\ UNCHANGED fam
OpRight(op, o) == /\ Grows
                  /\ op = "div" => RSgn(Val(o)) # 0
                  /\ tree' = N(op, tree, o, <<>>) /\ UNCHANGED fam
OpLeft(op, o) == /\ Grows
                 /\ op = "div" => RSgn(Val(tree)) # 0
                 /\ tree' = N(op, o, tree, <<>>) /\ UNCHANGED fam
\* cal_err / apply, terminal
CalOK == fam = "rat" /\ TD(tree) <= 1 /\ Tiny(Val(tree))
Cal1 == CalOK /\ tree' = N("cal1", tree, Nil, <<>>) /\ fam' = "cal"
Cal2(o) == CalOK /\ tree' = N("cal2", tree, o, <<>>) /\ fam' = "cal"
Cal2c(c) == CalOK /\ tree' = N("cal2c", tree, Nil, c) /\ fam' = "cal"
Cal2l(c) == CalOK /\ tree' = N("cal2l", Nil, tree, c) /\ fam' = "cal"
Apply(n) == CalOK /\ PowOK(tree, n) /\ tree' = N("apply", tree, Nil, <<n>>) /\ fam' = "cal"
\* number (op) NumberError, terminal
Reflected(op, c) == fam = "rat" /\ TD(tree) = 0 /\ tree' = N(op, Nil, tree, c) /\ fam' = "unsup"
\* transcendental operators over a rational tree of depth <= 1
TrOK == fam = "rat" /\ TD(tree) <= 1
IsPos == RSgn(Val(tree)) > 0
Exp == TrOK /\ Small(Val(tree)) /\ tree' = N("exp", tree, Nil, <<>>) /\ fam' = "trans"
Log == TrOK /\ IsPos /\ tree' = N("log", tree, Nil, <<>>) /\ fam' = "trans"
PowH(n) == TrOK /\ IsPos /\ tree' = N("powh", tree, Nil, <<n, 2>>) /\ fam' = "trans"
PowU(o) == TrOK /\ IsPos /\ Small(Val(o)) /\ tree' = N("powu", tree, o, <<>>) /\ fam' = "trans"
RevPow(c) == TrOK /\ Small(Val(tree)) /\ tree' = N("rpow", Nil, tree, c) /\ fam' = "trans"
SqrtFD == TrOK /\ IsPos /\ tree' = N("sqrtfd", tree, Nil, <<>>) /\ fam' = "trans"
Sin == TrOK /\ Small(Val(tree)) /\ tree' = N("sin", tree, Nil, <<>>) /\ fam' = "trans"
\* one rational operator on top of a transcendental node whose arguments are leaves
OverLeaves == fam = "trans" /\ tree \in TT1small
TNeg == OverLeaves /\ tree' = N("neg", tree, Nil, <<>>) /\ fam' = "trans2"
TSquare == OverLeaves /\ tree' = N("powc", tree, Nil, <<2>>) /\ fam' = "trans2"
TOpConst(op, c) == OverLeaves /\ tree' = N(op, tree, Nil, c) /\ fam' = "trans2"
TOpRight(op, o) == OverLeaves /\ tree' = N(op, tree, o, <<>>) /\ fam' = "trans2"
TOpLeft(op, o) == /\ OverLeaves
                  /\ op = "div" => PosTag(tree)
                  /\ tree' = N(op, o, tree, <<>>) /\ fam' = "trans2"
TExpLog == OverLeaves /\ tree[1] = "log" /\ tree' = N("exp", tree, Nil, <<>>) /\ fam' = "trans2"
TLogExp == OverLeaves /\ tree[1] = "exp" /\ tree' = N("log", tree, Nil, <<>>) /\ fam' = "trans2"

\* (the guards are repeated in front of the quantifiers so that TLC does not
\* enumerate the operands of states that cannot grow; one named disjunct per
\* operator so that the coverage statistics are per operator)
PowCs == Grows /\ \E n \in PN : PowC(n)
OpConsts == Grows /\ \E op \in ConstOps, c \in CS : OpConst(op, c)
OpRights == Grows /\ \E op \in BinOps, o \in Partners : OpRight(op, o)
OpLefts == Grows /\ \E op \in BinOps, o \in Partners : OpLeft(op, o)
Cal2s == CalOK /\ \E o \in CalArgs : Cal2(o)
Cal2cs == CalOK /\ \E c \in Consts : Cal2c(c)
Cal2ls == CalOK /\ \E c \in Consts : Cal2l(c)
Applys == CalOK /\ \E n \in PowN : Apply(n)
Reflecteds == fam = "rat" /\ TD(tree) = 0 /\ \E op \in ReflOps, c \in Consts : Reflected(op, c)
PowHs == TrOK /\ \E n \in HalfN : PowH(n)
PowUs == TrOK /\ \E o \in T1 : PowU(o)
RevPows == TrOK /\ \E c \in PosConsts : RevPow(c)
TOpConsts == OverLeaves /\ \E op \in ConstOps, c \in Consts : TOpConst(op, c)
TOpRights == OverLeaves /\ \E op \in BinOps, o \in T0 : TOpRight(op, o)
TOpLefts == OverLeaves /\ \E op \in BinOps, o \in T0 : TOpLeft(op, o)
Next ==
    \/ Neg \/ PowCs \/ OpConsts \/ OpRights \/ OpLefts
    \/ Cal1 \/ Cal2s \/ Cal2cs \/ Cal2ls \/ Applys
    \/ Reflecteds
    \/ Exp \/ Log \/ SqrtFD \/ Sin \/ PowHs \/ PowUs \/ RevPows
    \/ TNeg \/ TSquare \/ TExpLog \/ TLogExp \/ TOpConsts \/ TOpRights \/ TOpLefts

Exact == fam \in {"rat", "rat3", "cal"}
Magnitude == Exact => Rule(tree)[3] = Ref(tree)
ValueAgrees == Exact => LET v == Rule(tree)[1] IN v = Dual(tree, 0)[1] /\ v = Val(tree)
NegCharacterised == Exact /\ RuleNeg(tree) => HasNegScale(tree)
CalNonNeg == fam = "cal" /\ tree[1] # "apply" => ~RuleNeg(tree)
TransCharacterised ==
    fam = "trans" /\ IsT1(tree) =>
        /\ (~TransMagOK(tree) => tree[1] \in {"powu", "rpow"})
        /\ (TransMagOK(tree) /\ ~TransLawOK(tree) => HasNegScale(tree[2]) \/ tree[1] = "rpow")
BoundCongruence == fam = "bound" => TransErr(tree) = JVJt(tree)

\* probes, expected to be violated by the rules as transcribed
NonNegative == Exact => ~RuleNeg(tree)
TransLaw == fam = "trans" /\ IsT1(tree) => TransLawOK(tree)

--------------------------------------------------------------------------
RowExact(t) == LET r == Rule(t)
                  g == Grad(t)
              IN <<t, r[1], r[2], r[3], RefG(t, g), g>>
RowTrans(t) == IF IsT1(t) THEN <<t, TRUE, TransMagOK(t), TransLawOK(t)>> ELSE <<t, FALSE, TRUE, TRUE>>
RECURSIVE SumInt(_, _)
SumInt(f, n) == IF n = 0 THEN 0 ELSE SumInt(f, n - 1) + f[n]
AsSeq(S) == SetToSeq(S)
MapSeq(s, Op(_)) == [i \in 1..Len(s) |-> Op(s[i])]

\* the declarative families as sequences of pieces
RatSeq == RatPieces2
Rat3Seq == IF Depth >= 3 THEN RatPieces3 ELSE <<>>
Pieces(ps, Op(_)) == [i \in 1..Len(ps) |-> MapSeq(AsSeq(ps[i]), Op)]
CountP(ps) == SumInt([i \in 1..Len(ps) |-> Cardinality(ps[i])], Len(ps))

Post ==
    /\ TLCGet("stats").diameter >= 0
    /\ JsonSerialize(IOEnv.OUT_FILE,
         [depth |-> Depth,
          rat |-> Pieces(RatSeq, RowExact),
          rat3 |-> Pieces(Rat3Seq, RowExact),
          cal |-> MapSeq(AsSeq(CalTrees), RowExact),
          unsup |-> AsSeq(UnsupTrees),
          trans |-> MapSeq(AsSeq(TT1), RowTrans),
          trans2 |-> AsSeq(TT2),
          bound |-> AsSeq(BoundCfgs),
          counts |-> [rat |-> CountP(RatSeq), rat3 |-> CountP(Rat3Seq), cal |-> Cardinality(CalTrees),
                      unsup |-> Cardinality(UnsupTrees), trans |-> Cardinality(TT1),
                      trans2 |-> Cardinality(TT2), bound |-> Cardinality(BoundCfgs)]])

\* quick alphabets (cfg: ULeaves <- ULeavesQ, ...)
ULeavesQ == {<<3, 1, 3, 10>>, <<-2, 1, 2, 5>>, <<1, 2, 1, 2>>}
ConstsQ == {<<-2, 1>>, <<1, 2>>, <<3, 1>>}
PowNQ == {2, 3, -1}
ULeavesT == {<<3, 1, 3, 10>>, <<-2, 1, 2, 5>>, <<1, 2, 1, 2>>, <<-3, 2, 1, 4>>}
ConstsT == {<<-2, 1>>, <<1, 2>>, <<3, 1>>, <<-1, 3>>}
PowNT == {2, 3, -1, -2}
ULeaves3T == {<<-2, 1, 1, 2>>, <<3, 2, 1, 3>>}
Consts3T == {<<-2, 1>>, <<1, 2>>}
PowN3T == {2, -1}
==========================================================================
