--------------------------- MODULE LSCoupling ---------------------------
(* Partial-wave (l,s) selection for a two-body decay A -> B C               *)
(* (tf_pwa/particle.py: GetA2BC_LS_list, Decay.get_ls_list;                 *)
(*  tf_pwa/amp/core.py: HelicityDecay.get_ls_list with l_list / ls_list).   *)
(* All spins are doubled (j2 = 2j); l is an integer (l2 = 2l even).         *)
(*                                                                          *)
(* Allowed(c)  : the couplings the selection rules admit (declarative).     *)
(* NHel(c)     : number of independent helicity amplitudes H(lb,lc),        *)
(*               counted independently of Allowed (helicity pairs modulo    *)
(*               the parity reflection).                                    *)
(* Theorem checked by TLC on every configuration: |Allowed| = NHel.         *)
EXTENDS Integers, FiniteSets, TLC, Json, IOUtils

CONSTANTS MaxJ2      \* largest doubled spin enumerated

VARIABLE cfg
vars == <<cfg>>

Sgn(k) == IF k % 2 = 0 THEN 1 ELSE -1            \* (-1)^k, k integer
Abs(x) == IF x < 0 THEN -x ELSE x
Step2(a, b) == {x \in a..b : (x - a) % 2 = 0}    \* a, a+2, ..., <= b

\* ca = 0 means "no C-parity constraint"; it is only offered when s is an
\* integer (jb2 + jc2 even): a C eigenvalue (-1)^(l+s) needs integer l + s
Configs ==
    {c \in [ja2 : 0..MaxJ2, jb2 : 0..MaxJ2, jc2 : 0..MaxJ2,
            pa : {-1, 1}, pb : {-1, 1}, pc : {-1, 1},
            pbreak : BOOLEAN, ca : {-1, 0, 1}] :
        c.ca # 0 => (c.jb2 + c.jc2) % 2 = 0}

S2Range(c) == Step2(Abs(c.jb2 - c.jc2), c.jb2 + c.jc2)
L2Range(c, s2) == {l2 \in Step2(Abs(c.ja2 - s2), c.ja2 + s2) : l2 % 2 = 0}

ParityOK(c, l) == c.pbreak \/ c.pa = c.pb * c.pc * Sgn(l)
CParityOK(c, l, s2) == c.ca = 0 \/ c.ca = Sgn(l + s2 \div 2)

\* pairs <<l, s2>>: l as an integer, s doubled
Allowed(c) ==
    {ls \in UNION {{<<l2 \div 2, s2>> : l2 \in L2Range(c, s2)} : s2 \in S2Range(c)} :
        ParityOK(c, ls[1]) /\ CParityOK(c, ls[1], ls[2])}

\* restrictions a user may add: l_list, ls_list
RestrictL(c, ls) == {x \in Allowed(c) : x[1] \in ls}
RestrictLS(c, lss) == Allowed(c) \cap lss

\* helicity pairs (doubled) compatible with the parent's spin
HelPairs(c) ==
    {h \in Step2(-c.jb2, c.jb2) \X Step2(-c.jc2, c.jc2) :
        /\ Abs(h[1] - h[2]) <= c.ja2
        /\ (h[1] - h[2] - c.ja2) % 2 = 0}

\* parity relates H(-lb,-lc) = eta H(lb,lc), eta = pa pb pc (-1)^(ja-jb-jc)
Eta(c) == c.pa * c.pb * c.pc * Sgn((c.ja2 - c.jb2 - c.jc2) \div 2)

NHel(c) ==
    LET np == Cardinality(HelPairs(c))
        fixed == IF <<0, 0>> \in HelPairs(c) THEN 1 ELSE 0
    IN IF c.pbreak THEN np
       ELSE IF Eta(c) = 1 THEN (np + fixed) \div 2 ELSE (np - fixed) \div 2

Init == cfg \in Configs
Next == UNCHANGED vars

CountMatches == cfg.ca = 0 => Cardinality(Allowed(cfg)) = NHel(cfg)
FermionNumber == (cfg.ja2 - cfg.jb2 - cfg.jc2) % 2 # 0 => Allowed(cfg) = {} /\ HelPairs(cfg) = {}
ParityPartition ==
    \* without parity every triangle-allowed pair is offered; with parity the
    \* allowed sets of the two parent parities partition it
    LET free == [cfg EXCEPT !.pbreak = TRUE]
        plus == [cfg EXCEPT !.pbreak = FALSE, !.pa = 1]
        minus == [cfg EXCEPT !.pbreak = FALSE, !.pa = -1]
    IN /\ Allowed(plus) \cup Allowed(minus) = Allowed(free)
       /\ Allowed(plus) \cap Allowed(minus) = {}
CPartition ==
    cfg.ca = 0 /\ (cfg.jb2 + cfg.jc2) % 2 = 0 =>
      /\ Allowed([cfg EXCEPT !.ca = 1]) \cup Allowed([cfg EXCEPT !.ca = -1]) = Allowed(cfg)
      /\ Allowed([cfg EXCEPT !.ca = 1]) \cap Allowed([cfg EXCEPT !.ca = -1]) = {}

Post ==
    /\ TLCGet("stats").diameter >= 0
    /\ JsonSerialize(IOEnv.OUT_FILE,
         [maxj2 |-> MaxJ2,
          table |-> {<<<<c.ja2, c.jb2, c.jc2, c.pa, c.pb, c.pc, IF c.pbreak THEN 1 ELSE 0, c.ca>>,
                       Allowed(c), NHel(c)>> : c \in Configs}])
==========================================================================
