------------------------------ MODULE Sampler ------------------------------
(* Accept-reject samplers of tf-pwa as step machines.                        *)
(*                                                                           *)
(* (a) AR machine: tf_pwa/generator/generator.py  multi_sampling +           *)
(*     single_sampling2 (Variant = "multi"; used by ConfigLoader.generate_toy,*)
(*     generate_toy_p, ARGenerator) and                                      *)
(*     tf_pwa/generator/linear_interpolation.py interp_sample_f +            *)
(*     interp_sample_once (Variant = "interp").  applications.gen_data is the *)
(*     sub-behaviour "user bound >= every weight" (bound = global maximum,   *)
(*     never raised, never thinned) of the same machine.                     *)
(*     Weights are small integers, random numbers are rationals of a small   *)
(*     grid, bounds and the effective acceptance bound of every event are    *)
(*     exact rationals <<num, den>>.                                         *)
(*     One action per step of the implementation:                            *)
(*       Batch(ws, us)  single_sampling2 / interp_sample_once on one batch   *)
(*                      ws = effective weights amp / importance_f (Eff), the  *)
(*                      quantity the bound and the acceptance refer to        *)
(*                      (local bound raised when exceeded, first-batch rule) *)
(*       Thin(us)       earlier events kept with probability old/new        *)
(*       Truncate       merge and cut to N                                   *)
(* (b) n-body machine: tf_pwa/phasespace.py PhaseSpaceGenerator.generate     *)
(*     (first batch, estimate of the next request, refill, cap, concatenate, *)
(*     truncate) run once per node of a ChainGenerator.                      *)
(*     The condition "weight <= 1" of the unweighting step (wt <= wtMax and  *)
(*     importance <= 1) is discharged exactly on a mass lattice in           *)
(*     PhspLattice.tla; here a batch is abstracted to its accepted count.    *)
EXTENDS Integers, Sequences, FiniteSets, TLC, SequencesExt

CONSTANTS
    Variant,     \* "multi" | "interp"
    NSet,        \* requested sample sizes N
    MaxW,        \* amplitudes (amp(data)) range over 0..MaxW
    ImpNums, ImpDen, \* importance values importance_f(data) = k/ImpDen, k \in ImpNums ({ImpDen} = no importance_f)
    MaxLen,      \* largest batch (number of proposals)
    MaxBatches,  \* bound of the exploration (batches per behaviour)
    UNums, UDen, \* random numbers u = k/UDen, k \in UNums
    UserBounds,  \* integer bounds a caller may pass as max_weight (besides None)
    PhNSet,      \* n-body part: requested sizes
    PhCap,       \* n-body part: cap of one refill request (4 000 000 in the code)
    PhMaxRefill, \* n-body part: bound of the exploration
    PhMaxNodes   \* n-body part: a chain generator has 1..PhMaxNodes nodes (2-body or >2-body each)

VARIABLES
    \* ---- (a)
    arN,      \* requested size
    hasB,     \* max_weight is not None
    bound,    \* stored bound max_weight / max_rnd (rational)
    evs,      \* alive accepted events, in order: [k |-> batch, i |-> position, w |-> weight, bd |-> effective bound]
    ngen,     \* GenTest.N_gen
    nb,       \* number of batches appended (len(all_data) > 0 <=> nb > 0)
    pc,       \* "loop" | "thin" | "merge" | "done"
    pend,     \* events accepted in the current batch while a Thin is pending
    loc,      \* local bound of the current batch (new_max_weight)
    res,      \* returned events
    \* ---- (b)
    gens, gi, pN, pgen, ptot, plen, ppc, lens
arVars == <<arN, hasB, bound, evs, ngen, nb, pc, pend, loc, res>>
phVars == <<gens, gi, pN, pgen, ptot, plen, ppc, lens>>
vars == <<arVars, phVars>>

-----------------------------------------------------------------------------
(* exact rationals, always reduced, denominator > 0                          *)
RECURSIVE GCD(_, _)
GCD(a, b) == IF b = 0 THEN a ELSE GCD(b, a % b)
RNorm(r) == IF r[1] = 0 THEN <<0, 1>>
            ELSE LET g == GCD(r[1], r[2]) IN <<r[1] \div g, r[2] \div g>>
RInt(k) == <<k, 1>>
RMul(a, b) ==
    IF a[1] = 0 \/ b[1] = 0 THEN <<0, 1>>
    ELSE LET g1 == GCD(a[1], b[2])
             g2 == GCD(b[1], a[2])
         IN RNorm(<<(a[1] \div g1) * (b[1] \div g2), (a[2] \div g2) * (b[2] \div g1)>>)
RDiv(a, b) == RMul(a, <<b[2], b[1]>>)                 \* b > 0
RSub(a, b) == RNorm(<<a[1] * b[2] - b[1] * a[2], a[2] * b[2]>>)
RLt(a, b) == a[1] * b[2] < b[1] * a[2]
RLe(a, b) == a[1] * b[2] <= b[1] * a[2]
RMax(a, b) == IF RLt(a, b) THEN b ELSE a
One == <<1, 1>>

UGrid == {RNorm(<<k, UDen>>) : k \in UNums}
\* largest element of a sequence of rationals
MaxOf(ws) == LET S == {ws[i] : i \in DOMAIN ws} IN CHOOSE m \in S : \A x \in S : RLe(x, m)
ImpSet == {RNorm(<<k, ImpDen>>) : k \in ImpNums}
\* single_sampling2: weight = amp(data) / importance_f(data), an exact rational per event
Eff(as, ims) == [i \in DOMAIN as |-> RDiv(RInt(as[i]), ims[i])]
Sorted(S) == SetToSortSeq(S, LAMBDA a, b : a < b)

(* the constants of the two implementations                                  *)
RaiseF == <<101, 100>>                                   \* new_max * 1.01 ; np.max(w) * 1.01
FirstLocalF == IF Variant = "multi" THEN <<101, 100>> ELSE <<51, 50>>   \* interp: np.max(w) * 1.02
FirstStoreF == IF Variant = "multi" THEN <<11, 10>> ELSE One            \* max_weight = new * 1.1
AfterThinF == IF Variant = "multi" THEN <<21, 20>> ELSE One             \* max_weight = new * 1.05

(* local bound a batch is accepted with                                      *)
LocalBound(ws) ==
    LET wmax == MaxOf(ws) IN                                            \* tf.reduce_max(weight), AFTER the division
    IF ~hasB THEN RMul(FirstLocalF, wmax)
    ELSE IF Variant = "multi"
         THEN (IF RLt(bound, wmax) THEN RMul(RaiseF, wmax) ELSE bound)   \* max_weight < new_max_weight
         ELSE RMax(RMul(RaiseF, wmax), bound)                            \* max(np.max(w) * 1.01, max_rnd)

Accepted(ws, us, b) == {i \in DOMAIN ws : RLt(RMul(us[i], b), ws[i])}   \* rnd * max_weight < weight

(* Thin: multi   cut = rnd * new / old < 1 ;  interp   cut = rnd > 1 - old / new *)
Kept(u, old, new) ==
    IF Variant = "multi" THEN RLt(RMul(u, RDiv(new, old)), One)
    ELSE RLt(RSub(One, RDiv(old, new)), u)

-----------------------------------------------------------------------------
(* (a) the AR machine                                                        *)
PhIdle == /\ gens = <<>> /\ gi = 0 /\ pN = 0 /\ pgen = 0 /\ ptot = 0 /\ plen = 0
          /\ ppc = "off" /\ lens = <<>>
ArIdle == /\ arN = 0 /\ hasB = FALSE /\ bound = <<0, 1>> /\ evs = <<>> /\ ngen = 0 /\ nb = 0
          /\ pc = "off" /\ pend = <<>> /\ loc = <<0, 1>> /\ res = <<>>

ArStart(n, hb, b) ==
    /\ arN = n /\ hasB = hb /\ bound = b
    /\ evs = <<>> /\ ngen = 0 /\ nb = 0 /\ pc = "loop" /\ pend = <<>> /\ loc = <<0, 1>> /\ res = <<>>

InitAR == /\ PhIdle
          /\ \E n \in NSet :
               \/ ArStart(n, FALSE, <<0, 1>>)
               \/ \E b \in UserBounds : ArStart(n, TRUE, RInt(b))

NewEvents(ws, acc, b) ==
    LET idx == Sorted(acc) IN [j \in 1..Len(idx) |-> [k |-> nb + 1, i |-> idx[j], w |-> ws[idx[j]], bd |-> b]]

(* General form of a batch: `local` is the bound the batch is accepted with, `stored` the bound kept  *)
(* for the following batches (before a thinning).  Only what the property needs is required of them;  *)
(* the constants 1.01 / 1.1 / 1.05 of the implementation enter through Batch / Thin below.            *)
BatchG(ws, us, local, stored) ==
    /\ pc = "loop" /\ ngen < arN /\ nb < MaxBatches
    /\ Len(ws) >= 1 /\ Len(us) = Len(ws)
    /\ RLe(MaxOf(ws), local)                       \* accepted under a bound >= every effective weight of the batch
    /\ (hasB => stored = bound)                    \* a stored bound changes only through a thinning
    /\ (~hasB => RLe(local, stored))               \* a fresh stored bound covers its batch
    /\ LET acc == Accepted(ws, us, local)
           new == NewEvents(ws, acc, local)
           thin == RLt(stored, local) /\ (Variant = "interp" \/ nb > 0)  \* new > max_weight and len(all_data) > 0
       IN /\ hasB' = TRUE
          /\ bound' = stored
          /\ loc' = local
          /\ IF thin
             THEN /\ pc' = "thin" /\ pend' = new
                  /\ UNCHANGED <<evs, ngen, nb>>
             ELSE /\ evs' = evs \o new
                  /\ ngen' = ngen + Len(new)                              \* a.add_gen
                  /\ nb' = nb + 1
                  /\ pend' = <<>>
                  /\ pc' = IF ngen' >= arN THEN "merge" ELSE "loop"
    /\ UNCHANGED <<arN, res>>
    /\ UNCHANGED phVars

\* earlier events survive with probability old / new; their effective bound grows by new / old
ThinG(us, newStored) ==
    /\ pc = "thin"
    /\ Len(us) = Len(evs)
    /\ RLe(loc, newStored)                         \* the new stored bound covers the batch that caused the thinning
    /\ LET keep == {i \in DOMAIN evs : Kept(us[i], bound, loc)}
           idx == Sorted(keep)
           f == RDiv(loc, bound)
           old == [j \in 1..Len(idx) |-> [evs[idx[j]] EXCEPT !.bd = RMul(@, f)]]
       IN /\ evs' = old \o pend
          /\ ngen' = Len(old) + Len(pend)                                 \* a.set_gen ; a.add_gen
    /\ bound' = newStored
    /\ nb' = nb + 1
    /\ pend' = <<>>
    /\ pc' = IF ngen' >= arN THEN "merge" ELSE "loop"
    /\ UNCHANGED <<arN, hasB, loc, res>>
    /\ UNCHANGED phVars

\* the implementation: single_sampling2 + first-batch rule ; thinning stores new * 1.05
StoredRule(local) == IF ~hasB THEN RMul(FirstStoreF, local) ELSE bound
Batch(ws, us) == BatchG(ws, us, LocalBound(ws), StoredRule(LocalBound(ws)))
Thin(us) == ThinG(us, RMul(AfterThinF, loc))

Truncate ==
    /\ pc = "merge"
    /\ res' = SubSeq(evs, 1, IF Len(evs) < arN THEN Len(evs) ELSE arN)   \* tf.range(n) < N ; all_x[:N]
    /\ pc' = "done"
    /\ UNCHANGED <<arN, hasB, bound, evs, ngen, nb, pend, loc>>
    /\ UNCHANGED phVars

BatchStep == \E L \in 1..MaxLen : \E as \in [1..L -> 0..MaxW], ims \in [1..L -> ImpSet], us \in [1..L -> UGrid] :
                 Batch(Eff(as, ims), us)
ThinStep == pc = "thin" /\ \E us \in [1..Len(evs) -> UGrid] : Thin(us)
NextAR == BatchStep \/ ThinStep \/ Truncate

\* exploration of the general actions: a few admissible choices of the bounds per batch
LocalChoices(ws) == LET wmax == MaxOf(ws)
                    IN {wmax, RMul(RaiseF, wmax), RMul(<<2, 1>>, wmax)} \cup (IF hasB /\ RLe(wmax, bound) THEN {bound} ELSE {})
StoredChoices(local) == IF hasB THEN {bound} ELSE {local, RMul(FirstStoreF, local), RMul(<<3, 1>>, local)}
BatchGStep == \E L \in 1..MaxLen : \E as \in [1..L -> 0..MaxW], ims \in [1..L -> ImpSet], us \in [1..L -> UGrid] :
                 \E local \in LocalChoices(Eff(as, ims)) : \E stored \in StoredChoices(local) :
                     BatchG(Eff(as, ims), us, local, stored)
ThinGStep == pc = "thin" /\ \E us \in [1..Len(evs) -> UGrid] :
                 \E ns \in {loc, RMul(AfterThinF, loc), RMul(<<2, 1>>, loc)} : ThinG(us, ns)
NextARG == BatchGStep \/ ThinGStep \/ Truncate

(* invariants of (a)                                                         *)
ArTypeOK == /\ pc \in {"loop", "thin", "merge", "done", "off"}
            /\ bound[2] > 0 /\ loc[2] > 0
\* every alive event was accepted under (and still carries) a bound >= its weight,
\* i.e. its acceptance probability w / bd is a probability
\* (e.w is the effective weight amp / importance of the event)
BoundGeWeight == \A e \in ToSet(evs) \cup ToSet(pend) : RLe(e.w, e.bd) /\ RLt(<<0, 1>>, e.w)
\* within a batch the acceptance probability is proportional to the weight
Proportional == \A e1, e2 \in ToSet(evs) \cup ToSet(pend) : e1.k = e2.k => e1.bd = e2.bd
\* thinning only ever lowers the acceptance probability (it is a probability itself)
ThinIsProbability == pc = "thin" => RLt(bound, loc)
CountConsistent == pc \in {"loop", "merge", "done"} => ngen = Len(evs)
LoopExit == pc \in {"merge", "done"} => ngen >= arN
ResultLength == pc = "done" => Len(res) = arN
ResultIsPrefix == pc = "done" => res = SubSeq(evs, 1, arN)
\* order preserved: batches in order, positions increasing inside a batch
Ordered == \A a, b \in DOMAIN evs : a < b => \/ evs[a].k < evs[b].k
                                             \/ evs[a].k = evs[b].k /\ evs[a].i < evs[b].i

-----------------------------------------------------------------------------
(* (b) PhaseSpaceGenerator.generate / ChainGenerator.generate                *)
\* int(1.01 * (n_total - n_gen) / (n_gen + 1) * n_iter), capped
Est(total, gen, n) == (101 * (total - gen) * n) \div (100 * (gen + 1))
Req(total, gen, n) == LET e == Est(total, gen, n) IN IF e < PhCap THEN e ELSE PhCap
Min2(a, b) == IF a < b THEN a ELSE b

\* body counts of the nodes of a chain generator, in _get_generator's depth-first order;
\* the loop only distinguishes 2-body (direct) from >2-body (accept-reject) nodes
PhGens == UNION {[1..k -> {2, 3}] : k \in 1..PhMaxNodes}

InitPh == /\ ArIdle
          /\ gens \in PhGens /\ pN \in PhNSet
          /\ gi = 1 /\ pgen = 0 /\ ptot = 0 /\ plen = 0 /\ ppc = "first" /\ lens = <<>>

Advance(len) ==
    /\ lens' = Append(lens, len)
    /\ gi' = gi + 1
    /\ ppc' = IF gi + 1 > Len(gens) THEN "done" ELSE "first"
    /\ pgen' = 0 /\ ptot' = 0 /\ plen' = 0

\* m_nt == 2: generate_momentum(mass, n_iter) directly
PhDirect ==
    /\ ppc = "first" /\ gens[gi] = 2
    /\ Advance(pN)
    /\ UNCHANGED <<gens, pN>> /\ UNCHANGED arVars

\* req is a parameter so that the trace specification can bind the logged request
PhFirstReq(req, acc) ==
    /\ ppc = "first" /\ gens[gi] > 2
    /\ acc \in 0..req
    /\ pgen' = acc /\ plen' = acc /\ ptot' = req /\ ppc' = "loop"
    /\ UNCHANGED <<gens, gi, pN, lens>> /\ UNCHANGED arVars
PhFirst(acc) == PhFirstReq(pN, acc)          \* generate_mass(n_iter)

\* req is a parameter so that the trace specification can bind the logged request
PhRefillReq(req, acc) ==
    /\ ppc = "loop" /\ pgen < pN
    /\ acc \in 0..req
    /\ pgen' = pgen + acc /\ plen' = plen + acc /\ ptot' = ptot + req
    /\ UNCHANGED <<gens, gi, pN, lens, ppc>> /\ UNCHANGED arVars

PhRefill(acc) == PhRefillReq(Req(ptot, pgen, pN), acc) /\ ptot < PhMaxRefill * PhCap + pN

PhTrunc ==
    /\ ppc = "loop" /\ pgen >= pN
    /\ Advance(Min2(plen, pN))                           \* mass_f[i][:n_iter]
    /\ UNCHANGED <<gens, pN>> /\ UNCHANGED arVars

PhFirstStep == \E acc \in 0..pN : PhFirst(acc)
PhRefillStep == \E acc \in 0..PhCap : PhRefill(acc)
NextPh == PhDirect \/ PhFirstStep \/ PhRefillStep \/ PhTrunc

PhCount == ppc = "loop" => (pgen = plen /\ ptot >= pgen)
\* every generator of the chain returns exactly N
PhLenN == \A i \in DOMAIN lens : lens[i] = pN
PhDone == ppc = "done" => Len(lens) = Len(gens)
\* progress is always possible: the loop never asks for an empty batch
PhReqPositive == (ppc = "loop" /\ pgen < pN) => Req(ptot, pgen, pN) >= 1
\* ranking: a refill that accepts anything strictly increases n_gen (bounded by the loop condition)
PhRank == [][(ppc = "loop" /\ ppc' = "loop" /\ plen' > plen) => (pgen' > pgen /\ pgen < pN)]_vars
\* termination whenever acceptance is possible: from every loop state an accepting refill is enabled
PhCanProgress == (ppc = "loop" /\ pgen < pN /\ ptot < PhMaxRefill * PhCap + pN) => ENABLED PhRefill(1)
=============================================================================
