------------------------------ MODULE Barrier ------------------------------
(* Exact arithmetic for the line-shape specification (C15) and the exact     *)
(* Blatt-Weisskopf coefficient table for EVERY order L = 0..8.               *)
(*                                                                           *)
(* TLC integers are 32-bit; the coefficients of |theta_L(i w)|^2 exceed that *)
(* for L >= 6 (c_8 = (15!!)^2 = 4 108 830 350 625) and a Breit-Wigner value  *)
(* on a rational lattice point needs a few hundred bits.  Everything here is *)
(* therefore carried in LIMBS:                                               *)
(*   N  natural number  = little-endian sequence of limbs in 0..Base-1,      *)
(*                        no leading zero limb, zero = << >>                 *)
(*   Z  integer         = <<sign, N>>, sign in {-1, 0, 1}                    *)
(*   C  complex rational = [ok, re : Z, im : Z, den : N]  value (re+i im)/den *)
(*      (not reduced; equality is decided by cross-multiplication);          *)
(*      ok = FALSE marks "no exact rational value" (division by zero,        *)
(*      irrational square root, transcendental operator)                     *)
(* No operation can overflow silently: a column of the schoolbook product    *)
(* is at most MaxLimbs * (Base-1)^2 < 2^31, longer operands raise an         *)
(* assertion (which the harness reports as a machinery failure).             *)
EXTENDS Integers, Sequences, FiniteSets, TLC

Base == 4096
MaxLimbs == 120          \* 120 * 4095^2 + carry < 2^31

Sgn(k) == IF k % 2 = 0 THEN 1 ELSE -1

----------------------------------------------------------------------------
(* naturals *)
NZero == << >>
NOne == <<1>>
RECURSIVE NFromInt(_)
NFromInt(k) == IF k = 0 THEN << >> ELSE <<k % Base>> \o NFromInt(k \div Base)      \* k >= 0 native
Limb(a, i) == IF i <= Len(a) THEN a[i] ELSE 0
RECURSIVE NTrimLen(_, _)
NTrimLen(a, n) == IF n = 0 THEN 0 ELSE IF a[n] # 0 THEN n ELSE NTrimLen(a, n - 1)
NNorm(a) == SubSeq(a, 1, NTrimLen(a, Len(a)))
NWellFormed(a) == /\ \A i \in 1..Len(a) : a[i] \in 0..(Base - 1)
                  /\ (Len(a) > 0 => a[Len(a)] # 0)
RECURSIVE NCmpFrom(_, _, _)
NCmpFrom(a, b, i) ==
    IF i = 0 THEN 0
    ELSE IF a[i] > b[i] THEN 1 ELSE IF a[i] < b[i] THEN -1 ELSE NCmpFrom(a, b, i - 1)
NCmp(a, b) == IF Len(a) > Len(b) THEN 1 ELSE IF Len(a) < Len(b) THEN -1 ELSE NCmpFrom(a, b, Len(a))
RECURSIVE NAddFrom(_, _, _, _)
NAddFrom(a, b, i, c) ==
    IF i > Len(a) /\ i > Len(b) THEN (IF c = 0 THEN << >> ELSE <<c>>)
    ELSE LET s == Limb(a, i) + Limb(b, i) + c
         IN <<s % Base>> \o NAddFrom(a, b, i + 1, s \div Base)
NAdd(a, b) == IF a = << >> THEN b ELSE IF b = << >> THEN a ELSE NAddFrom(a, b, 1, 0)
RECURSIVE NSubFrom(_, _, _, _)
NSubFrom(a, b, i, br) ==                                  \* a >= b
    IF i > Len(a) THEN << >>
    ELSE LET s == a[i] - Limb(b, i) - br
         IN IF s < 0 THEN <<s + Base>> \o NSubFrom(a, b, i + 1, 1)
            ELSE <<s>> \o NSubFrom(a, b, i + 1, 0)
NSub(a, b) == IF b = << >> THEN a ELSE NNorm(NSubFrom(a, b, 1, 0))
RECURSIVE ColSum(_, _, _, _, _)
ColSum(a, b, k, i, hi) == IF i > hi THEN 0 ELSE a[i] * b[k + 1 - i] + ColSum(a, b, k, i + 1, hi)
RECURSIVE Carry(_, _, _, _)
Carry(cols, n, i, c) ==
    IF i > n THEN NFromInt(c)
    ELSE LET s == cols[i] + c IN <<s % Base>> \o Carry(cols, n, i + 1, s \div Base)
NMul(a, b) ==
    IF a = << >> \/ b = << >> THEN << >>
    ELSE IF a = NOne THEN b ELSE IF b = NOne THEN a
    ELSE LET la == Len(a)
             lb == Len(b)
             n == la + lb - 1
             cols == [k \in 1..n |->
                         ColSum(a, b, k, IF k + 1 - lb > 1 THEN k + 1 - lb ELSE 1, IF k < la THEN k ELSE la)]
         IN IF la > MaxLimbs \/ lb > MaxLimbs
            THEN Assert(FALSE, "Barrier: operand longer than MaxLimbs limbs (a column sum could overflow 32 bits)")
            ELSE Carry(cols, n, 1, 0)

----------------------------------------------------------------------------
(* integers *)
ZZero == <<0, << >>>>
ZOne == <<1, NOne>>
ZFromInt(k) == IF k = 0 THEN ZZero ELSE IF k > 0 THEN <<1, NFromInt(k)>> ELSE <<-1, NFromInt(-k)>>
ZNeg(x) == <<-x[1], x[2]>>
ZAdd(x, y) ==
    IF x[1] = 0 THEN y ELSE IF y[1] = 0 THEN x
    ELSE IF x[1] = y[1] THEN <<x[1], NAdd(x[2], y[2])>>
    ELSE LET c == NCmp(x[2], y[2])
         IN IF c = 0 THEN ZZero
            ELSE IF c > 0 THEN <<x[1], NSub(x[2], y[2])>> ELSE <<y[1], NSub(y[2], x[2])>>
ZSub(x, y) == ZAdd(x, ZNeg(y))
ZMul(x, y) == IF x[1] = 0 \/ y[1] = 0 THEN ZZero ELSE <<x[1] * y[1], NMul(x[2], y[2])>>
ZMulN(x, n) == IF x[1] = 0 THEN ZZero ELSE <<x[1], NMul(x[2], n)>>          \* n > 0
ZWellFormed(x) == /\ x[1] \in {-1, 0, 1} /\ NWellFormed(x[2]) /\ (x[1] = 0 <=> x[2] = << >>)
RECURSIVE ZSumSeq(_, _)
ZSumSeq(s, i) == IF i > Len(s) THEN ZZero ELSE ZAdd(s[i], ZSumSeq(s, i + 1))

----------------------------------------------------------------------------
(* complex rationals *)
CV(re, im, den) == [ok |-> TRUE, re |-> re, im |-> im, den |-> den]
CNA == [ok |-> FALSE, re |-> ZZero, im |-> ZZero, den |-> NOne]
CFromQ(n, d) == IF d > 0 THEN CV(ZFromInt(n), ZZero, NFromInt(d)) ELSE CV(ZFromInt(-n), ZZero, NFromInt(-d))
CZero == CFromQ(0, 1)
COne == CFromQ(1, 1)
CI == CV(ZZero, ZOne, NOne)
CFromZ(z) == CV(z, ZZero, NOne)
CNeg(x) == IF ~x.ok THEN CNA ELSE CV(ZNeg(x.re), ZNeg(x.im), x.den)
CConj(x) == IF ~x.ok THEN CNA ELSE CV(x.re, ZNeg(x.im), x.den)
CAdd(x, y) ==
    IF ~x.ok \/ ~y.ok THEN CNA
    ELSE IF x.den = y.den THEN CV(ZAdd(x.re, y.re), ZAdd(x.im, y.im), x.den)
    ELSE CV(ZAdd(ZMulN(x.re, y.den), ZMulN(y.re, x.den)),
            ZAdd(ZMulN(x.im, y.den), ZMulN(y.im, x.den)),
            NMul(x.den, y.den))
CSub(x, y) == CAdd(x, CNeg(y))
CMul(x, y) ==
    IF ~x.ok \/ ~y.ok THEN CNA
    ELSE IF x.im[1] = 0 /\ y.im[1] = 0 THEN CV(ZMul(x.re, y.re), ZZero, NMul(x.den, y.den))
    ELSE CV(ZSub(ZMul(x.re, y.re), ZMul(x.im, y.im)),
            ZAdd(ZMul(x.re, y.im), ZMul(x.im, y.re)),
            NMul(x.den, y.den))
\* 1/x ; real and purely imaginary arguments are inverted without squaring
CRecip(x) ==
    IF ~x.ok THEN CNA
    ELSE IF x.re[1] = 0 /\ x.im[1] = 0 THEN CNA
    ELSE IF x.im[1] = 0 THEN CV(<<x.re[1], x.den>>, ZZero, x.re[2])
    ELSE IF x.re[1] = 0 THEN CV(ZZero, <<-x.im[1], x.den>>, x.im[2])
    ELSE CV(ZMulN(x.re, x.den), ZNeg(ZMulN(x.im, x.den)), ZAdd(ZMul(x.re, x.re), ZMul(x.im, x.im))[2])
CDiv(x, y) == CMul(x, CRecip(y))
RECURSIVE CPow(_, _)
CPow(x, n) ==
    IF n = 0 THEN (IF x.ok THEN COne ELSE CNA)
    ELSE IF n = 1 THEN x
    ELSE IF n % 2 = 0 THEN LET h == CPow(x, n \div 2) IN CMul(h, h)
    ELSE CMul(x, CPow(x, n - 1))
CAbs2(x) == IF ~x.ok THEN CNA ELSE CV(ZAdd(ZMul(x.re, x.re), ZMul(x.im, x.im)), ZZero, NMul(x.den, x.den))
CEq(x, y) == /\ x.ok /\ y.ok
             /\ ZMulN(x.re, y.den) = ZMulN(y.re, x.den)
             /\ ZMulN(x.im, y.den) = ZMulN(y.im, x.den)
CIsReal(x) == x.ok /\ x.im[1] = 0
CSignRe(x) == x.re[1]
CSignIm(x) == x.im[1]
CWellFormed(x) == ZWellFormed(x.re) /\ ZWellFormed(x.im) /\ NWellFormed(x.den) /\ x.den # << >>
\* real absolute value
CAbsReal(x) == IF ~CIsReal(x) THEN CNA ELSE CV(<<x.re[1] * x.re[1], x.re[2]>>, ZZero, x.den)
\* principal square root of a real rational whose root is rational: the root is looked up in a
\* pool of candidate non-negative rationals <<a, b>> (native integers) and VERIFIED exactly
CSqrt(x, pool) ==
    IF ~CIsReal(x) THEN CNA
    ELSE IF x.re[1] = 0 THEN x
    ELSE LET good == {r \in pool : NMul(NFromInt(r[1] * r[1]), x.den) = NMul(NFromInt(r[2] * r[2]), x.re[2])}
         IN IF good = {} THEN CNA
            ELSE LET r == CHOOSE r \in good : TRUE
                 IN IF x.re[1] > 0 THEN CFromQ(r[1], r[2])
                    ELSE CV(ZZero, ZFromInt(r[1]), NFromInt(r[2]))
\* Horner: sum_i coef[i] z^(n-i), coef a sequence of Z (leading coefficient first)
RECURSIVE CHorner(_, _, _, _)
CHorner(coef, z, i, acc) ==
    IF i > Len(coef) THEN acc
    ELSE CHorner(coef, z, i + 1, CAdd(CMul(acc, z), CFromZ(coef[i])))
CPolyZ(coef, z) == IF ~z.ok THEN CNA ELSE CHorner(coef, z, 2, CFromZ(coef[1]))

----------------------------------------------------------------------------
(* reverse Bessel polynomials and the Blatt-Weisskopf table                  *)
(*   theta_n(x) = sum_k a(n,k) x^(n-k),  a(n,k) = (n+k)!/((n-k)! k! 2^k)     *)
(*   |theta_L(i w)|^2 = sum_i BWC(L)[i+1] w^(2(L-i))                          *)
(*   BWC(L)[i+1] = sum_k (-1)^(i-k) a(L,k) a(L,2i-k)                          *)
(* a(n,k) <= a(8,8) = 2 027 025 fits 32 bits (as does every intermediate of  *)
(* the recurrence below); the products do not and are formed in limbs.       *)
MaxL == 8
RECURSIVE BesselA(_, _)
BesselA(n, k) ==
    IF k < 0 \/ k > n \/ n < 0 THEN 0
    ELSE IF k = 0 THEN 1
    ELSE (BesselA(n, k - 1) * ((n + k) * (n - k + 1))) \div (2 * k)
BWCZ(L) ==
    [i1 \in 1..(L + 1) |->
        LET i == i1 - 1
            ks == {k \in 0..L : 2 * i - k \in 0..L}
            terms == [k \in ks |-> <<Sgn(i - k), NMul(NFromInt(BesselA(L, k)), NFromInt(BesselA(L, 2 * i - k)))>>]
            lo == CHOOSE k \in ks : \A j \in ks : k <= j
            hi == CHOOSE k \in ks : \A j \in ks : k >= j
        IN ZSumSeq([j \in 1..(hi - lo + 1) |-> terms[lo + j - 1]], 1)]
BWTab == [L \in 0..MaxL |-> BWCZ(L)]

\* theorems that validate the transcription of the table (cf. Tables.tla, now for every L <= 8)
BWExact(L) ==
    \A k \in 1..L : (BesselA(L, k - 1) * ((L + k) * (L - k + 1))) % (2 * k) = 0
BWRecurrence(L) ==
    L >= 2 => \A k \in 0..L : BesselA(L, k) = (2 * L - 1) * BesselA(L - 1, k - 1) + BesselA(L - 2, k)
\* closed form of the definition, checked where the factorials fit 32 bits: a(n,k) (n-k)! k! 2^k = (n+k)!
RECURSIVE Fact(_)
Fact(n) == IF n <= 1 THEN 1 ELSE n * Fact(n - 1)
RECURSIVE Pow2(_)
Pow2(e) == IF e = 0 THEN 1 ELSE 2 * Pow2(e - 1)
RECURSIVE NFact(_)
NFact(n) == IF n <= 1 THEN NOne ELSE NMul(NFromInt(n), NFact(n - 1))
BWDefinition(L) ==
    \A k \in 0..L :
        NMul(NMul(NFromInt(BesselA(L, k)), NMul(NFact(L - k), NFact(k))), NFromInt(Pow2(k))) = NFact(L + k)
RECURSIVE DoubleFact(_)
DoubleFact(k) == IF k <= 1 THEN 1 ELSE k * DoubleFact(k - 2)
BWEnds(L) ==
    /\ BWTab[L][1] = ZOne
    /\ BWTab[L][L + 1] = <<1, NMul(NFromInt(DoubleFact(2 * L - 1)), NFromInt(DoubleFact(2 * L - 1)))>>
\* the orders written out in the documentation of Bprime: 1, z+1, z^2+3z+9
BWDocumented(L) ==
    /\ (L = 0 => BWTab[0] = <<ZOne>>)
    /\ (L = 1 => BWTab[1] = <<ZOne, ZOne>>)
    /\ (L = 2 => BWTab[2] = <<ZOne, ZFromInt(3), ZFromInt(9)>>)
BWPositive(L) == \A i \in 1..(L + 1) : BWTab[L][i][1] = 1 /\ ZWellFormed(BWTab[L][i])
BWTableTheorems(L) ==
    /\ BWExact(L) /\ BWRecurrence(L) /\ BWDefinition(L) /\ BWEnds(L) /\ BWDocumented(L) /\ BWPositive(L)
=============================================================================
