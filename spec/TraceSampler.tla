--------------------------- MODULE TraceSampler ---------------------------
(* Trace validation (binding B2) for Sampler.tla.                            *)
(*                                                                           *)
(* IN_FILE: {"traces": [T1, T2, ...]} recorded by the harness from the real  *)
(* tf_pwa code (instrumented phsp / amp callables and a logging wrapper      *)
(* around single_sampling2 / data_mask for multi_sampling; instrumented f /  *)
(* f_interp for interp_sample_f; a tracing subclass of PhaseSpaceGenerator   *)
(* for the n-body loop).  Weights are interned to small integers, bounds and *)
(* random numbers are exact rationals [num, den].                            *)
(*                                                                           *)
(*   T = [kind |-> "ar", N, hasB, b0, ev |-> <<e1, e2, ...>>]                *)
(*       e = [a |-> "Batch", as, ims, us, acc, hasBin, bin, local, stored]   *)
(*           as = amplitudes amp(data), ims = importance_f(data) ([1,1] when  *)
(*           no importance function is passed); the specification forms the   *)
(*           effective weights as / ims itself                                *)
(*         | [a |-> "Thin", us, kept, stored]  (or nkept: number of survivors)*)
(* The bounds are bound from the log (general actions BatchG / ThinG): the   *)
(* specification requires of them only what the property needs, so a change  *)
(* of the safety factors 1.01 / 1.1 / 1.05 does not reject a trace (the      *)
(* harness reports it as model drift).                                       *)
(*         | [a |-> "End", ids, bound]                                       *)
(*   T = [kind |-> "ph", N, gens, ev |-> <<...>>]                            *)
(*       e = [a |-> "Direct", len] | [a |-> "First", req, acc, wle1]         *)
(*         | [a |-> "Refill", req, acc, wle1] | [a |-> "Trunc", len]         *)
(*                                                                           *)
(* Idiom: IsEvent(name) /\ bind logged fields /\ SpecAction(args).  Many     *)
(* traces per run: `tid` selects the trace, `idx` the next record; run with  *)
(* -workers 1.  Every record determines its successor state, so the state    *)
(* graph is one path and the POSTCONDITION compares its length with the      *)
(* number of records: all traces consumed <=> diameter = TotalStates.        *)
EXTENDS Sampler, Json, IOUtils

VARIABLES tid, idx
tvars == <<vars, tid, idx>>

Traces == JsonDeserialize(IOEnv.IN_FILE).traces
NT == Len(Traces)
Tr == Traces[tid]
Ev == Tr.ev[idx]
IsEvent(a) == tid <= NT /\ idx <= Len(Tr.ev) /\ Ev.a = a

RECURSIVE SumLen(_)
SumLen(k) == IF k = 0 THEN 0 ELSE SumLen(k - 1) + Len(Traces[k].ev) + 1
TotalStates == 1 + SumLen(NT)

\* ---- loading the header of a trace (unprimed for Init, primed for NextTrace)
LoadInit(T) ==
    IF T.kind = "ar"
    THEN /\ ArStart(T.N, T.hasB, IF T.hasB THEN RNorm(T.b0) ELSE <<0, 1>>) /\ PhIdle
    ELSE /\ ArIdle
         /\ gens = T.gens /\ pN = T.N /\ gi = 1 /\ pgen = 0 /\ ptot = 0 /\ plen = 0
         /\ ppc = "first" /\ lens = <<>>

LoadNext(T) ==
    IF T.kind = "ar"
    THEN /\ arN' = T.N /\ hasB' = T.hasB /\ bound' = (IF T.hasB THEN RNorm(T.b0) ELSE <<0, 1>>)
         /\ evs' = <<>> /\ ngen' = 0 /\ nb' = 0 /\ pc' = "loop" /\ pend' = <<>> /\ loc' = <<0, 1>> /\ res' = <<>>
         /\ gens' = <<>> /\ gi' = 0 /\ pN' = 0 /\ pgen' = 0 /\ ptot' = 0 /\ plen' = 0 /\ ppc' = "off" /\ lens' = <<>>
    ELSE /\ arN' = 0 /\ hasB' = FALSE /\ bound' = <<0, 1>> /\ evs' = <<>> /\ ngen' = 0 /\ nb' = 0
         /\ pc' = "off" /\ pend' = <<>> /\ loc' = <<0, 1>> /\ res' = <<>>
         /\ gens' = T.gens /\ pN' = T.N /\ gi' = 1 /\ pgen' = 0 /\ ptot' = 0 /\ plen' = 0
         /\ ppc' = "first" /\ lens' = <<>>

AllIdleNext ==
    /\ arN' = 0 /\ hasB' = FALSE /\ bound' = <<0, 1>> /\ evs' = <<>> /\ ngen' = 0 /\ nb' = 0
    /\ pc' = "off" /\ pend' = <<>> /\ loc' = <<0, 1>> /\ res' = <<>>
    /\ gens' = <<>> /\ gi' = 0 /\ pN' = 0 /\ pgen' = 0 /\ ptot' = 0 /\ plen' = 0 /\ ppc' = "off" /\ lens' = <<>>

TraceInit == /\ tid = 1 /\ idx = 1
             /\ IF NT >= 1 THEN LoadInit(Traces[1]) ELSE ArIdle /\ PhIdle

Step == tid' = tid /\ idx' = idx + 1
Ids(s) == [j \in DOMAIN s |-> <<s[j].k, s[j].i>>]
Pos(s) == [j \in DOMAIN s |-> s[j].i]
RSeq(s) == [j \in DOMAIN s |-> RNorm(s[j])]

\* ---- (a) multi_sampling / interp_sample_f
TrBatch ==
    /\ IsEvent("Batch") /\ Tr.kind = "ar"
    /\ Ev.hasBin = hasB                                  \* the bound the batch was called with
    /\ (hasB => RNorm(Ev.bin) = bound)
    /\ BatchG(Eff(Ev.as, RSeq(Ev.ims)), RSeq(Ev.us), RNorm(Ev.local), RNorm(Ev.stored))   \* logged: bound it was accepted with, bound kept
    /\ Pos(IF pc' = "thin" THEN pend' ELSE SubSeq(evs', Len(evs) + 1, Len(evs'))) = Ev.acc
    /\ Step

TrThin ==
    /\ IsEvent("Thin") /\ Tr.kind = "ar"
    /\ ThinG(RSeq(Ev.us), RNorm(Ev.stored))
    /\ IF "kept" \in DOMAIN Ev
       THEN Ids(SubSeq(evs', 1, Len(evs') - Len(pend))) = Ev.kept   \* survivors, in order
       ELSE Len(evs') - Len(pend) = Ev.nkept                        \* interp_sample_f: only the count is observable
    /\ Step

TrEnd ==
    /\ IsEvent("End") /\ Tr.kind = "ar"
    /\ Truncate
    /\ Ids(res') = Ev.ids                                \* the returned events, in order
    /\ RNorm(Ev.bound) = bound                           \* status: final stored bound
    /\ Step

\* ---- (b) PhaseSpaceGenerator.generate, one block of records per chain node
TrPhDirect ==
    /\ IsEvent("Direct") /\ Tr.kind = "ph"
    /\ PhDirect
    /\ lens'[Len(lens')] = Ev.len
    /\ Step

TrPhFirst ==
    /\ IsEvent("First") /\ Tr.kind = "ph"
    /\ Ev.req >= 1
    /\ Ev.wle1                                           \* max weight of the batch <= 1
    /\ PhFirstReq(Ev.req, Ev.acc)
    /\ Step

\* the size of a request is an efficiency heuristic: bound from the log, not compared with Req / PhCap
TrPhRefill ==
    /\ IsEvent("Refill") /\ Tr.kind = "ph"
    /\ Ev.req >= 1
    /\ Ev.wle1
    /\ PhRefillReq(Ev.req, Ev.acc)
    /\ Step

TrPhTrunc ==
    /\ IsEvent("Trunc") /\ Tr.kind = "ph"
    /\ PhTrunc
    /\ lens'[Len(lens')] = Ev.len
    /\ Step

\* ---- end of a trace: the machine must have terminated
NextTrace ==
    /\ tid <= NT /\ idx = Len(Tr.ev) + 1
    /\ (Tr.kind = "ar" => pc = "done")
    /\ (Tr.kind = "ph" => ppc = "done")
    /\ tid' = tid + 1 /\ idx' = 1
    /\ IF tid < NT THEN LoadNext(Traces[tid + 1]) ELSE AllIdleNext

TraceNext == TrBatch \/ TrThin \/ TrEnd \/ TrPhDirect \/ TrPhFirst \/ TrPhRefill \/ TrPhTrunc \/ NextTrace

TracePost ==
    LET d == TLCGet("stats").diameter IN
    JsonSerialize(IOEnv.OUT_FILE,
        [consumed |-> (d = TotalStates), diameter |-> d, total |-> TotalStates, traces |-> NT])
=============================================================================
