--------------------------- MODULE FitSession ---------------------------
(* Fits in one session (tf_pwa/fit.py fit_scipy / fit_newton_cg /            *)
(* fit_minuit_v2 / except_result / FitResult; ConfigLoader.fit, set_params,  *)
(* save_params).  The minimiser is an adversary: it evaluates arbitrary       *)
(* points (every evaluation sets the model parameters, as                    *)
(* FCN.nll_grad -> model.set_params does) and finally reports one of them.   *)
(* Points are abstract ids: 0 = the starting point of the current fit,       *)
(* k >= 1 = the k-th evaluated point.  What the model checker tracks is      *)
(* *which point* the model holds, which point the result lists and which     *)
(* point the reported minimum belongs to -- the content of C08 -- plus the   *)
(* bound bookkeeping of the parameter manager.                               *)
(*                                                                           *)
(* The per-method epilogues are transcribed from the code; the constants     *)
(* below mirror the code (TRUE = repaired behaviour).                        *)
EXTENDS Integers, Sequences, FiniteSets, TLC

CONSTANTS MaxEval,        \* evaluations per fit
          MaxFits,        \* fits per session
          HasBounds,      \* the configuration declares a bound (bounds_dict non-empty)
          LbfgsAssigns,   \* L-BFGS-B epilogue assigns the result to the model (vm.set_all) instead of raising
          MinuitSyncs,    \* iminuit epilogue puts the model at the reported point
          MinuitBounded   \* iminuit receives the bounds

Transform == {"BFGS", "CG", "Nelder-Mead"}                        \* bound transformation, epilogue removes it
Newton == {"Newton-CG", "trust-krylov", "trust-ncg", "trust-exact",
           "Newton-CG-p", "trust-krylov-p", "trust-ncg-p"}       \* bound transformation, stays installed
Methods == Transform \cup Newton \cup {"L-BFGS-B", "iminuit"}
Stops == {"converged", "maxiter", "large"}                        \* "large": LargeNumberError in the callback

VARIABLES pc,        \* "idle" | "running" | "returned" | "raised"
          meth, stop,
          prev,      \* method of the previous fit of this session ("none" for the first)
          nfit,      \* fits started
          evals,     \* evaluations in the current fit
          modelAt,   \* point the model parameters hold (point ids of the current fit)
          inside,    \* [point -> BOOLEAN] the point lies inside the declared bounds
          installed, \* bounds installed in the parameter manager (vm.bnd_dic)
          res,       \* the returned FitResult: [paramsAt, nllAt, names] or NoRes
          saved,     \* what was written to a file: [at, names] or NoSave
          fresh      \* point held by a freshly built model after loading the file, or -1
vars == <<pc, meth, stop, prev, nfit, evals, modelAt, inside, installed, res, saved, fresh>>

NoRes == [paramsAt |-> -1, nllAt |-> -1, names |-> "none"]
NoSave == [at |-> -1, names |-> "none"]

Init ==
    /\ pc = "idle" /\ meth = "none" /\ stop = "none" /\ prev = "none" /\ nfit = 0 /\ evals = 0
    /\ modelAt = 0 /\ inside = [p \in {0} |-> TRUE]
    /\ installed = FALSE /\ res = NoRes /\ saved = NoSave /\ fresh = -1

StartFit(m, s) ==
    /\ pc \in {"idle", "returned"} /\ nfit < MaxFits
    /\ (s = "large" => m \in Transform)           \* only these run the LargeNumberError callback with except_result
    /\ pc' = "running" /\ meth' = m /\ stop' = s /\ prev' = meth /\ nfit' = nfit + 1 /\ evals' = 0
    /\ modelAt' = 0                                \* the point the model holds now is the new starting point
    /\ inside' = [p \in {0} |-> inside[modelAt]]
    /\ installed' = IF m \in Transform \cup Newton THEN (installed \/ HasBounds) ELSE installed
    \* point ids are per fit: a file written earlier says nothing about the fit that starts now
    /\ res' = NoRes /\ saved' = NoSave /\ fresh' = -1

\* one evaluation of NLL and gradient at a new point chosen by the minimiser
Eval(inb) ==
    /\ pc = "running" /\ evals < MaxEval
    /\ evals' = evals + 1
    /\ modelAt' = evals + 1
    \* transformed coordinates and native bounds keep every point inside; a minimiser that
    \* was not given the bounds may step outside
    /\ (inb = FALSE => (meth = "iminuit" /\ HasBounds /\ ~MinuitBounded))
    /\ inside' = [p \in 0..(evals + 1) |-> IF p = evals + 1 THEN inb ELSE inside[p]]
    /\ UNCHANGED <<pc, meth, stop, prev, nfit, installed, res, saved, fresh>>

\* the minimiser finishes and reports point b (scipy / Minuit report the best point they evaluated;
\* that the reported value is not above the start is asserted on the real minimisers by the harness)
Finish(b) ==
    /\ pc = "running" /\ b \in 0..evals
    /\ stop # "large"
    /\ (evals = 0 => b = 0)
    /\ CASE meth \in Transform ->
              \* set_trans_var(s.x); min_nll = s.fun; remove_bound(); standard_complex(); params = get_params()
              /\ modelAt' = b /\ installed' = FALSE
              /\ res' = [paramsAt |-> b, nllAt |-> b, names |-> "all"] /\ pc' = "returned"
         [] meth \in Newton ->
              \* set_trans_var(s.x); params = get_params(); the bounds stay installed
              /\ modelAt' = b /\ UNCHANGED installed
              /\ res' = [paramsAt |-> b, nllAt |-> b, names |-> "all"] /\ pc' = "returned"
         [] meth = "L-BFGS-B" ->
              IF LbfgsAssigns
              THEN /\ modelAt' = b /\ UNCHANGED installed
                   /\ res' = [paramsAt |-> b, nllAt |-> b, names |-> "all"] /\ pc' = "returned"
              ELSE /\ UNCHANGED <<modelAt, installed>> /\ res' = NoRes /\ pc' = "raised"   \* vm.set_var does not exist
         [] meth = "iminuit" ->
              \* m.values, m.fval; HESSE evaluates further points afterwards; the repaired code then puts
              \* the model at m.values and lists every parameter
              /\ modelAt' = IF MinuitSyncs THEN b ELSE modelAt
              /\ UNCHANGED installed
              /\ res' = [paramsAt |-> b, nllAt |-> b, names |-> IF MinuitSyncs THEN "all" ELSE "free"] /\ pc' = "returned"
    /\ UNCHANGED <<meth, stop, prev, nfit, evals, inside, saved, fresh>>

\* LargeNumberError raised by the callback after at least one evaluation: except_result
LargeStop ==
    /\ pc = "running" /\ stop = "large" /\ evals >= 1
    /\ res' = [paramsAt |-> modelAt, nllAt |-> modelAt, names |-> "all"]    \* get_all_dic(), cached_nll
    /\ pc' = "returned"
    /\ UNCHANGED <<meth, stop, prev, nfit, evals, modelAt, inside, installed, saved, fresh>>

\* FitResult.save_as / ConfigLoader.save_params, then set_params(file) on a freshly built model
Save(viaResult) ==
    /\ pc = "returned" /\ saved = NoSave
    /\ saved' = IF viaResult THEN [at |-> res.paramsAt, names |-> res.names] ELSE [at |-> modelAt, names |-> "all"]
    /\ UNCHANGED <<pc, meth, stop, prev, nfit, evals, modelAt, inside, installed, res, fresh>>
Load ==
    /\ saved # NoSave /\ fresh = -1
    \* names not listed in the file keep the value of the configuration: fixed parameters only
    /\ fresh' = IF saved.names = "all" THEN saved.at ELSE -2     \* -2: some unlisted value of the fresh model
    /\ UNCHANGED <<pc, meth, stop, prev, nfit, evals, modelAt, inside, installed, res, saved>>

Next ==
    \/ \E m \in Methods, s \in Stops : StartFit(m, s)
    \/ \E b \in BOOLEAN : Eval(b)
    \/ \E b \in 0..MaxEval : Finish(b)
    \/ LargeStop
    \/ \E v \in BOOLEAN : Save(v)
    \/ Load

--------------------------------------------------------------------------
(* C08 *)
Returned == pc = "returned"
\* the model holds exactly the parameter values listed in the result
ResultEqualsModel == Returned => res.paramsAt = modelAt
\* the reported minimum is the NLL at those values
MinIsNllOfResult == Returned => res.nllAt = res.paramsAt
\* bounded parameters lie inside their bounds
InsideBounds == Returned => inside[modelAt]
\* every minimiser offered by name returns
EveryMethodReturns == pc # "raised"
\* file -> freshly built model reproduces the parameters (and hence the NLL)
SaveLoadIdentity == (Returned /\ fresh # -1) => fresh = modelAt
\* bookkeeping: no bound transformation is left installed after a fit returned (not a clause of
\* C08; reported as an observation only)
NoBoundsLeft == Returned => ~installed
==========================================================================
