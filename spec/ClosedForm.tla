---------------------------- MODULE ClosedForm ----------------------------
(* Scenario space and exact discrete ingredients of the closed form of C04:  *)
(*                                                                           *)
(*   A(0-) -> R_k(J_k) + c_k ,  R_k -> a_k b_k ,   all external spins 0      *)
(*   density = | sum_k c_k (-1)^J q^J p^J B_J(q) B_J(p) BW_k(m_k) P_J(cos th_k) |^2 *)
(*                                                                           *)
(* The model is a step machine on ONE model object per structure:            *)
(*   structure  = a non-empty set of the three possible chains of a          *)
(*                three-body decay with a spin J in 0..MaxJ per chain        *)
(*                (fixed when the model is built),                           *)
(*   parameter point = for every active chain one point of a lattice whose   *)
(*                entries fix the coupling triple (total, g_ls of A->R c,    *)
(*                g_ls of R->a b; Gaussian integers), the nominal mass       *)
(*                (as a rational position inside the kinematic window) and   *)
(*                the width (rational fraction of the window),               *)
(*   Init       = the model as built (every chain at lattice point 1),       *)
(*   SetParams(new) = set_params on the same object, moving it to another    *)
(*                parameter point (masses, widths and couplings change).     *)
(* One TLC state = (structure, current parameter point).  The reference      *)
(* density is a function of the state only (it is assembled from the         *)
(* lattice entry of the current point): whatever the implementation          *)
(* remembers from earlier points of the behaviour (memoised momenta,         *)
(* cached tables) must not show.  The harness replays, per structure, the    *)
(* behaviour Walk (start, every other point once, back to the start) on a    *)
(* real model and compares the density after every step, on the events of    *)
(* every frame in Frames (parent at rest / same events boosted to a          *)
(* laboratory frame: the closed form is invariant).                          *)
(*                                                                           *)
(* What TLC decides (invariants, on every state):                            *)
(*  * UniqueLS : with natural parity P_R = (-1)^J the selection rules of     *)
(*    LSCoupling (the module validated by C13) admit exactly one coupling in *)
(*    each decay, (l,s) = (J,J) and (J,0): the closed form has one term.     *)
(*  * HelicityFactor : the documented helicity-coupling formula              *)
(*      H = g sqrt((2l+1)/(2ja+1)) <l 0 s d|ja d> <jb lb jc -lc|s d>         *)
(*    evaluated with the exact CG table of module Tables gives (-1)^J for    *)
(*    A -> R c and +1 for R -> a b: this is where the (-1)^J of the property *)
(*    comes from.                                                            *)
(*  * Coupling : c_k = total * g1 * g2 in exact Gaussian-integer arithmetic; *)
(*    lattice entries are well formed (mass strictly inside the window).     *)
(*  * WalkIsBehaviour : Walk starts and ends at the initial point, every     *)
(*    step is a SetParams transition, every state of the structure is        *)
(*    visited.                                                               *)
(* Postcondition: the Legendre and Blatt-Weisskopf table theorems of module  *)
(* Tables; the JSON output (lattice with c_k, structures with their walks,   *)
(* frames, PJ, BWC, signs) from which the harness builds the reference.      *)
EXTENDS Tables

CONSTANTS MaxJ,          \* largest resonance spin (4)
          NPT,           \* number of lattice points per chain (2 | 3)
          HalfFraction   \* TRUE: three-chain structures use the points with an even number
                         \* of non-default chains (balanced half fraction; quick tier budget)

\* lattice: <<total, g_ls(A -> R c), g_ls(R -> a b), mass position, width>>
\* Gaussian integers <<re, im>>; rationals <<num, den>>: m0 = lo + pos (hi - lo),
\* Gamma0 = width (hi - lo), (lo, hi) = (m_a + m_b, M - m_c).  Point 1 is the model as built.
Lattice == << <<<<1, 0>>, <<1, 0>>, <<1, 0>>, <<1, 2>>, <<3, 25>>>>,
              <<<<1, 2>>, <<0, -1>>, <<1, 1>>, <<1, 4>>, <<1, 25>>>>,
              <<<<-2, 1>>, <<1, 0>>, <<1, -2>>, <<4, 5>>, <<9, 20>>>>,
              <<<<0, -1>>, <<2, 1>>, <<-1, 0>>, <<13, 20>>, <<1, 5>>>> >>
Frames == <<"rest", "lab">>

LS == INSTANCE LSCoupling WITH MaxJ2 <- 2 * MaxJ, cfg <- st

ChainIds == {1, 2, 3}        \* 1: R -> (1 2), spectator 3; 2: R -> (1 3), spectator 2; 3: R -> (2 3), spectator 1
Structures == UNION {[act -> 0..MaxJ] : act \in (SUBSET ChainIds) \ {{}}}
Start(act) == [k \in act |-> 1]
Points(act) ==
    IF HalfFraction /\ Cardinality(act) = 3
    THEN {p \in [act -> 1..NPT] : Cardinality({k \in act : p[k] # 1}) % 2 = 0}
    ELSE [act -> 1..NPT]
Active(s) == DOMAIN s[2]

CMul(x, y) == <<x[1] * y[1] - x[2] * y[2], x[1] * y[2] + x[2] * y[1]>>
Coupling(t) == CMul(CMul(t[1], t[2]), t[3])

\* parities: finals and parent odd (0-); natural parity for the resonance
ParR(J) == Sgn(J)
Decay1(J) == [ja2 |-> 0, jb2 |-> 2 * J, jc2 |-> 0, pa |-> -1, pb |-> ParR(J), pc |-> -1, pbreak |-> FALSE, ca |-> 0]
Decay2(J) == [ja2 |-> 2 * J, jb2 |-> 0, jc2 |-> 0, pa |-> ParR(J), pb |-> -1, pc |-> -1, pbreak |-> FALSE, ca |-> 0]
UniqueLS(J) ==
    /\ LS!Allowed(Decay1(J)) = {<<J, 2 * J>>}
    /\ LS!Allowed(Decay2(J)) = {<<J, 0>>}
    /\ LS!NHel(Decay1(J)) = 1 /\ LS!NHel(Decay2(J)) = 1

\* product of square roots sqrt(n) * CG * CG' = +-1 : signs multiply, squares multiply to one
\* A -> R c : l = s = J, ja = 0 : sqrt(2J+1) <J 0 J 0|0 0> <J 0 0 0|J 0>
HSign1(J) == CG2(2 * J, 0, 2 * J, 0, 0)[1] * CG2(2 * J, 0, 0, 0, 2 * J)[1]
\* R -> a b : l = J, s = 0, ja = J : sqrt((2J+1)/(2J+1)) <J 0 0 0|J 0> <0 0 0 0|0 0>
HSign2(J) == CG2(2 * J, 0, 0, 0, 2 * J)[1] * CG2(0, 0, 0, 0, 0)[1]
HelicityFactor(J) ==
    LET e1 == CG2(2 * J, 0, 2 * J, 0, 0)
    IN /\ CGIsOne(CG2(2 * J, 0, 0, 0, 2 * J)) /\ CGIsOne(CG2(0, 0, 0, 0, 0))
       \* (2J+1) <J0J0|00>^2 = 1
       /\ e1[2] * e1[2] * VPow(VPos(e1[3])) * (2 * J + 1) = VPow(VNeg(e1[3]))
       /\ HSign1(J) = Sgn(J)
       /\ HSign2(J) = 1

----------------------------------------------------------------------------
(* the step machine: st = <<"scn", J, pt>>, J the structure, pt the current point *)
InitCF == st \in {<<"scn", J, Start(DOMAIN J)>> : J \in Structures}
SetParams(new) ==
    /\ new \in Points(Active(st))
    /\ new # st[3]
    /\ st' = <<"scn", st[2], new>>
NextCF == \E new \in Points(Active(st)) : SetParams(new)

\* the behaviour the harness replays on one model object: start, every other point, start
Walk(J) ==
    LET act == DOMAIN J
    IN <<Start(act)>> \o SetToSeq(Points(act) \ {Start(act)}) \o <<Start(act)>>
WalkIsBehaviour(J) ==
    LET w == Walk(J)
        act == DOMAIN J
    IN /\ w[1] = Start(act) /\ w[Len(w)] = Start(act)
       /\ Len(w) >= 3                                            \* P0, P1, ..., P0
       /\ \A i \in 1..(Len(w) - 1) : w[i] # w[i + 1] /\ w[i + 1] \in Points(act)   \* SetParams enabled
       /\ {w[i] : i \in 1..Len(w)} = Points(act)                 \* every state of the structure

IsScn == st[1] = "scn"
\* the two theorems depend on J only: constant-level tables, evaluated once by TLC
UniqueLSTab == [J \in 0..MaxJ |-> UniqueLS(J)]
HelicityFactorTab == [J \in 0..MaxJ |-> HelicityFactor(J)]
InvUniqueLS == IsScn => \A k \in Active(st) : UniqueLSTab[st[2][k]]
InvHelicityFactor == IsScn => \A k \in Active(st) : HelicityFactorTab[st[2][k]]
LatticeOK(i) ==
    LET t == Lattice[i]
        c == Coupling(t)
    IN \* |c|^2 = |t|^2 |g1|^2 |g2|^2  and c # 0
       /\ c[1] * c[1] + c[2] * c[2]
            = (t[1][1] * t[1][1] + t[1][2] * t[1][2]) * (t[2][1] * t[2][1] + t[2][2] * t[2][2])
                * (t[3][1] * t[3][1] + t[3][2] * t[3][2])
       /\ c # <<0, 0>>
       \* nominal mass strictly inside the window, positive width
       /\ t[4][1] > 0 /\ t[4][1] < t[4][2] /\ t[5][1] > 0 /\ t[5][2] > 0
InvCoupling == IsScn => \A k \in Active(st) : LatticeOK(st[3][k])
InvPoint == IsScn => st[3] \in Points(Active(st))
InvWalk == IsScn => WalkIsBehaviour(st[2])
\* masses change along the walk (otherwise a memoised nominal momentum could not show)
InvWalkMovesMasses ==
    IsScn => LET w == Walk(st[2]) IN
             \A k \in Active(st) : \E i \in 1..(Len(w) - 1) : Lattice[w[i][k]][4] # Lattice[w[i + 1][k]][4]

\* constant-level table (evaluated once by TLC)
HSignTab == [J \in 0..MaxJ |-> HSign1(J) * HSign2(J)]
\* the table theorems of module Tables for the rows used here (checked once, in the postcondition)
TablesTheorems ==
    /\ \A L \in 0..MaxL : BWExact(L) /\ BWRecurrence(L) /\ BWEnds(L) /\ BWDocumented(L)
    /\ \A J \in 0..MaxPJ : PJIsInteger(J) /\ PJBonnet(J) /\ PJEnds(J)

AsPairs(f) == {<<k, f[k]>> : k \in DOMAIN f}
StructOut(J) ==
    LET w == Walk(J) IN <<AsPairs(J), [i \in 1..Len(w) |-> AsPairs(w[i])]>>
PostCF ==
    /\ TLCGet("stats").diameter >= 0
    /\ TablesTheorems
    /\ JsonSerialize(IOEnv.OUT_FILE,
         [maxj |-> MaxJ,
          npt |-> NPT,
          nstates |-> SumFn([J \in Structures |-> Cardinality(Points(DOMAIN J))]),
          frames |-> Frames,
          lattice |-> [i \in 1..NPT |-> <<Lattice[i], Coupling(Lattice[i])>>],
          structures |-> {StructOut(J) : J \in Structures},
          pj |-> {<<J, PJ(J)>> : J \in 0..MaxJ},
          bw |-> {<<L, BWC(L)>> : L \in 0..MaxL},
          sign |-> {<<J, HSignTab[J]>> : J \in 0..MaxJ}])
=============================================================================
