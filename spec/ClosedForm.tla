---------------------------- MODULE ClosedForm ----------------------------
(* Scenario space and exact discrete ingredients of the closed form of C04:  *)
(*                                                                           *)
(*   A(0-) -> R_k(J_k) + c_k ,  R_k -> a_k b_k ,   all external spins 0      *)
(*   density = | sum_k c_k (-1)^J q^J p^J B_J(q) B_J(p) BW_k(m_k) P_J(cos th_k) |^2 *)
(*                                                                           *)
(* One TLC state = one scenario: a non-empty set of the three possible       *)
(* chains of a three-body decay, a spin J in 0..MaxJ for each active chain,  *)
(* and for each active chain a coupling triple (total, g_ls of A->R c,       *)
(* g_ls of R->a b) from a small lattice of Gaussian integers.                *)
(*                                                                           *)
(* What TLC decides here (invariants, on every scenario):                    *)
(*  * UniqueLS : with natural parity P_R = (-1)^J the selection rules of     *)
(*    LSCoupling (the module validated by C13) admit exactly one coupling in *)
(*    each decay, (l,s) = (J,J) and (J,0): the closed form has one term.     *)
(*  * HelicityFactor : the documented helicity-coupling formula              *)
(*      H = g sqrt((2l+1)/(2ja+1)) <l 0 s d|ja d> <jb lb jc -lc|s d>         *)
(*    evaluated with the exact CG table of module Tables gives (-1)^J for    *)
(*    A -> R c and +1 for R -> a b: this is where the (-1)^J of the property *)
(*    comes from.                                                            *)
(*  * Coupling : c_k = total * g1 * g2 in exact Gaussian-integer arithmetic. *)
(* The scenarios, c_k, the signs and the tables PJ (Legendre, half-angle     *)
(* form) and BWC (Blatt-Weisskopf) are written as JSON; the harness builds   *)
(* the reference density from them.                                          *)
EXTENDS Tables

CONSTANTS MaxJ,      \* largest resonance spin (4)
          NCPL       \* number of points taken from the coupling lattice

\* coupling lattice: triples <<total, g_ls(A -> R c), g_ls(R -> a b)>> of Gaussian
\* integers <<re, im>>; the first is the default of a freshly built model
CPLSeq == << <<<<1, 0>>, <<1, 0>>, <<1, 0>>>>,
             <<<<1, 2>>, <<0, -1>>, <<1, 1>>>>,
             <<<<-2, 1>>, <<1, 0>>, <<1, -2>>>>,
             <<<<0, -1>>, <<2, 1>>, <<-1, 0>>>> >>
CPL == {CPLSeq[i] : i \in 1..NCPL}

LS == INSTANCE LSCoupling WITH MaxJ2 <- 2 * MaxJ, cfg <- st

ChainIds == {1, 2, 3}        \* 1: R -> (1 2), spectator 3; 2: R -> (1 3), spectator 2; 3: R -> (2 3), spectator 1
Scenarios ==
    UNION {{<<"scn", J, c>> : <<J, c>> \in [act -> 0..MaxJ] \X [act -> CPL]}
              : act \in (SUBSET ChainIds) \ {{}}}
Active(s) == DOMAIN s[2]

CMul(x, y) == <<x[1] * y[1] - x[2] * y[2], x[1] * y[2] + x[2] * y[1]>>
Coupling(t) == CMul(CMul(t[1], t[2]), t[3])

\* parities: finals and parent odd (0-); natural parity for the resonance
ParR(J) == Sgn(J)
Decay1(J) == [ja2 |-> 0, jb2 |-> 2 * J, jc2 |-> 0, pa |-> -1, pb |-> ParR(J), pc |-> -1, pbreak |-> FALSE, ca |-> 0]
Decay2(J) == [ja2 |-> 2 * J, jb2 |-> 0, jc2 |-> 0, pa |-> ParR(J), pb |-> -1, pc |-> -1, pbreak |-> FALSE, ca |-> 0]
UniqueLS(J) ==
    /\ LS!Allowed(Decay1(J)) = {<<J, 2 * J>>}
    /\ LS!Allowed(Decay2(J)) = {<<J, 0>>}
    /\ LS!NHel(Decay1(J)) = 1 /\ LS!NHel(Decay2(J)) = 1

\* product of square roots sqrt(n) * CG * CG' = +-1 : signs multiply, squares multiply to one
\* A -> R c : l = s = J, ja = 0 : sqrt(2J+1) <J 0 J 0|0 0> <J 0 0 0|J 0>
HSign1(J) == CG2(2 * J, 0, 2 * J, 0, 0)[1] * CG2(2 * J, 0, 0, 0, 2 * J)[1]
\* R -> a b : l = J, s = 0, ja = J : sqrt((2J+1)/(2J+1)) <J 0 0 0|J 0> <0 0 0 0|0 0>
HSign2(J) == CG2(2 * J, 0, 0, 0, 2 * J)[1] * CG2(0, 0, 0, 0, 0)[1]
HelicityFactor(J) ==
    LET e1 == CG2(2 * J, 0, 2 * J, 0, 0)
    IN /\ CGIsOne(CG2(2 * J, 0, 0, 0, 2 * J)) /\ CGIsOne(CG2(0, 0, 0, 0, 0))
       \* (2J+1) <J0J0|00>^2 = 1
       /\ e1[2] * e1[2] * VPow(VPos(e1[3])) * (2 * J + 1) = VPow(VNeg(e1[3]))
       /\ HSign1(J) = Sgn(J)
       /\ HSign2(J) = 1

InitCF == st \in Scenarios
NextCF == UNCHANGED vars

IsScn == st[1] = "scn"
\* the two theorems depend on J only: constant-level tables, evaluated once by TLC
UniqueLSTab == [J \in 0..MaxJ |-> UniqueLS(J)]
HelicityFactorTab == [J \in 0..MaxJ |-> HelicityFactor(J)]
InvUniqueLS == IsScn => \A k \in Active(st) : UniqueLSTab[st[2][k]]
InvHelicityFactor == IsScn => \A k \in Active(st) : HelicityFactorTab[st[2][k]]
InvCoupling ==
    IsScn => \A k \in Active(st) :
        LET t == st[3][k]
            c == Coupling(t)
        IN \* |c|^2 = |t|^2 |g1|^2 |g2|^2  and c # 0
           /\ c[1] * c[1] + c[2] * c[2]
                = (t[1][1] * t[1][1] + t[1][2] * t[1][2]) * (t[2][1] * t[2][1] + t[2][2] * t[2][2])
                    * (t[3][1] * t[3][1] + t[3][2] * t[3][2])
           /\ c # <<0, 0>>

\* constant-level table (evaluated once by TLC)
HSignTab == [J \in 0..MaxJ |-> HSign1(J) * HSign2(J)]
\* the table theorems of module Tables for the rows used here (checked once, in the postcondition)
TablesTheorems ==
    /\ \A L \in 0..MaxL : BWExact(L) /\ BWRecurrence(L) /\ BWEnds(L) /\ BWDocumented(L)
    /\ \A J \in 0..MaxPJ : PJIsInteger(J) /\ PJBonnet(J) /\ PJEnds(J)

ScnOut(s) ==
    [chains |-> {<<k, s[2][k], s[3][k], Coupling(s[3][k]), HSignTab[s[2][k]]>> : k \in Active(s)}]
PostCF ==
    /\ TLCGet("stats").diameter >= 0
    /\ TablesTheorems
    /\ JsonSerialize(IOEnv.OUT_FILE,
         [maxj |-> MaxJ,
          nscn |-> Cardinality(Scenarios),
          scenarios |-> {ScnOut(s) : s \in Scenarios},
          pj |-> {<<J, PJ(J)>> : J \in 0..MaxJ},
          bw |-> {<<L, BWC(L)>> : L \in 0..MaxL},
          sign |-> {<<J, HSignTab[J]>> : J \in 0..MaxJ}])
=============================================================================
