-------------------------------- MODULE Bins --------------------------------
(* Postconditions of adaptive binning and of weighted histograms on small    *)
(* integer data sets.                                                        *)
(*                                                                           *)
(* (1) tf_pwa/adaptive_bins.py  AdaptiveBound: single_split_bound (numpy     *)
(*     percentiles, linear interpolation, + 1e-6), multi_split_bound (nested *)
(*     over the dimensions), get_bool_mask (half-open  lb <= x < rb).        *)
(*     Bounds are r + e*eps with r rational, e in {-1,0,1}, eps = 1e-6 an     *)
(*     infinitesimal with respect to the integer data lattice; they are      *)
(*     compared lexicographically.  TLC checks on every enumerated data set  *)
(*       ExactlyOne : every event lies in exactly one bin,                   *)
(*       Contiguous : the bins of one split tile the parent interval,        *)
(*       Balanced   : for distinct values the populations of a split differ  *)
(*                    from equal by at most one event.                       *)
(* (2) tf_pwa/histogram.py  Hist1D.histogram on numpy.histogram semantics     *)
(*     (half-open bins, last bin closed):  count_b = sum w, error_b^2 =       *)
(*     sum w^2 over the events of bin b, hence  sum count = sum w  and        *)
(*     sum error^2 = sum w^2 over the in-range events.                        *)
(* Cases are written as JSON for the harness.                                *)
EXTENDS Integers, Sequences, FiniteSets, TLC, Json, IOUtils, SequencesExt

CONSTANTS
    Mode,      \* "adapt1" | "adapt2" | "hist"
    VMax,      \* data values 0..VMax
    MaxEv,     \* data sets have 1..MaxEv events
    MaxSplit,  \* a dimension is split into 1..MaxSplit bins
    WNat, WOff, \* histogram weights are {k - WOff : k \in WNat} (negative weights allowed)
    EdgeSets   \* histogram: set of {lo, hi, nbins} choices encoded as lo * 100 + hi * 10 + nbins

VARIABLE c
vars == <<c>>
WSet == {k - WOff : k \in WNat}

RECURSIVE GCD(_, _)
GCD(a, b) == IF b = 0 THEN a ELSE GCD(b, a % b)
Abs(a) == IF a < 0 THEN -a ELSE a
RNorm(r) == IF r[1] = 0 THEN <<0, 1>>
            ELSE LET g0 == GCD(Abs(r[1]), r[2]) IN <<r[1] \div g0, r[2] \div g0>>
RLt(a, b) == a[1] * b[2] < b[1] * a[2]
\* bound = <<rational, e>>  meaning  r + e * eps
BLt(a, b) == RLt(a[1], b[1]) \/ (a[1] = b[1] /\ a[2] < b[2])
BLe(a, b) == BLt(a, b) \/ a = b
Val(v) == <<<<v, 1>>, 0>>
InBin(v, lb, rb) == BLe(lb, Val(v)) /\ BLt(Val(v), rb)        \* idx_data >= lb  and  idx_data < rb

SortedVals(vs) == SortSeq(vs, LAMBDA a, b : a < b)
SetMin(S) == CHOOSE m \in S : \A x \in S : m <= x
SetMax(S) == CHOOSE m \in S : \A x \in S : x <= m

\* numpy.percentile(data, j/n*100) with linear interpolation, as a rational:
\* h = (N-1) j / n ;  value = sd[floor(h)] + frac(h) (sd[floor(h)+1] - sd[floor(h)])   (0-based)
Percentile(vs, j, n) ==
    LET sd == SortedVals(vs)
        N == Len(sd)
        num == (N - 1) * j
        lo == num \div n
        fr == num % n                                  \* frac(h) = fr / n
    IN IF fr = 0 THEN <<sd[lo + 1], 1>>
       ELSE RNorm(<<sd[lo + 1] * n + fr * (sd[lo + 2] - sd[lo + 1]), n>>)

\* single_split_bound(data, n, base_bound): n contiguous bins inside base = <<lb, rb>>
SplitBounds(vs, n, base) ==
    [j \in 1..n |->
        <<IF j = 1 THEN base[1] ELSE <<Percentile(vs, j - 1, n), 1>>,
          IF j = n THEN base[2] ELSE <<Percentile(vs, j, n), 1>>>>]
\* base_bound(data): min - eps, max + eps
BaseBound(vs) == LET S == {vs[i] : i \in DOMAIN vs}
                 IN <<<<<<SetMin(S), 1>>, -1>>, <<<<SetMax(S), 1>>, 1>>>>

-----------------------------------------------------------------------------
(* (1a) one dimension                                                        *)
\* data sets of k events whose first event is f (one root state per (k, f), see Init)
With(k, f, S) == {<<f>> \o r : r \in [1..(k - 1) -> S]}
Cases1Of(k, f) == {[root |-> FALSE, vs |-> vs, n |-> n] : vs \in With(k, f, 0..VMax), n \in 1..MaxSplit}

Bounds1(cs) == SplitBounds(cs.vs, cs.n, BaseBound(cs.vs))
BinsOf1(cs, i) == {j \in 1..cs.n : InBin(cs.vs[i], Bounds1(cs)[j][1], Bounds1(cs)[j][2])}
Count1(cs, j) == Cardinality({i \in DOMAIN cs.vs : j \in BinsOf1(cs, i)})
Distinct(vs) == Cardinality({vs[i] : i \in DOMAIN vs}) = Len(vs)

ExactlyOne1 == c.root \/ (\A i \in DOMAIN c.vs : Cardinality(BinsOf1(c, i)) = 1)
Contiguous1 == c.root \/ (LET b == Bounds1(c) IN
    /\ \A j \in 1..(c.n - 1) : b[j][2] = b[j + 1][1]
    /\ \A j \in 1..c.n : BLe(b[j][1], b[j][2])
    /\ b[1][1] = BaseBound(c.vs)[1] /\ b[c.n][2] = BaseBound(c.vs)[2])
\* |count_j - N/n| <= 1  for distinct values
Balanced1 == c.root \/ (Distinct(c.vs) => \A j \in 1..c.n : Abs(Count1(c, j) * c.n - Len(c.vs)) <= c.n)

Row1(cs) == [vs |-> cs.vs, n |-> cs.n, distinct |-> Distinct(cs.vs),
             bin |-> [i \in DOMAIN cs.vs |-> CHOOSE j \in 1..cs.n : j \in BinsOf1(cs, i)],
             counts |-> [j \in 1..cs.n |-> Count1(cs, j)]]

-----------------------------------------------------------------------------
(* (1b) two dimensions, bins = [[n1, n2]] : split x, then y inside every x bin *)
Pairs == (0..VMax) \X (0..VMax)
Cases2Of(k, f) == {[root |-> FALSE, ps |-> ps, n1 |-> n1, n2 |-> n2] :
                      ps \in With(k, f, Pairs), n1 \in 1..MaxSplit, n2 \in 1..MaxSplit}
Xs(ps) == [i \in DOMAIN ps |-> ps[i][1]]
Ys(ps) == [i \in DOMAIN ps |-> ps[i][2]]
XB(cs) == SplitBounds(Xs(cs.ps), cs.n1, BaseBound(Xs(cs.ps)))
InX(cs, i, j) == InBin(cs.ps[i][1], XB(cs)[j][1], XB(cs)[j][2])
\* the events of x bin j, in order
Sub(cs, j) == SelectSeq(cs.ps, LAMBDA p : InBin(p[1], XB(cs)[j][1], XB(cs)[j][2]))
\* y bounds inside x bin j (the base bound in y is the one of the whole data set)
YB(cs, j) == SplitBounds(Ys(Sub(cs, j)), cs.n2, BaseBound(Ys(cs.ps)))
NonEmptyX(cs) == \A j \in 1..cs.n1 : Len(Sub(cs, j)) > 0
BinsOf2(cs, i) == {jk \in (1..cs.n1) \X (1..cs.n2) :
                      /\ InX(cs, i, jk[1])
                      /\ InBin(cs.ps[i][2], YB(cs, jk[1])[jk[2]][1], YB(cs, jk[1])[jk[2]][2])}
Count2(cs, jk) == Cardinality({i \in DOMAIN cs.ps : jk \in BinsOf2(cs, i)})
\* percentiles of an empty sub-sample are undefined: such cases are outside the model
Defined2(cs) == NonEmptyX(cs)
ExactlyOne2 == c.root \/ (Defined2(c) => \A i \in DOMAIN c.ps : Cardinality(BinsOf2(c, i)) = 1)
Balanced2 == c.root \/ ((Defined2(c) /\ Distinct(Xs(c.ps)) /\ Distinct(Ys(c.ps))) =>
    \A j \in 1..c.n1 : \A k \in 1..c.n2 :
        Abs(Count2(c, <<j, k>>) * c.n2 - Len(Sub(c, j))) <= c.n2)
Row2(cs) == [xs |-> Xs(cs.ps), ys |-> Ys(cs.ps), n1 |-> cs.n1, n2 |-> cs.n2,
             defined |-> Defined2(cs),
             distinct |-> (Distinct(Xs(cs.ps)) /\ Distinct(Ys(cs.ps))),
             bin |-> IF Defined2(cs)
                     THEN [i \in DOMAIN cs.ps |-> LET jk == CHOOSE q \in (1..cs.n1) \X (1..cs.n2) : q \in BinsOf2(cs, i)
                                                  IN (jk[1] - 1) * cs.n2 + jk[2]]
                     ELSE <<>>]

-----------------------------------------------------------------------------
(* (2) weighted histograms                                                   *)
Events == (0..VMax) \X WSet
HCase(ev, e) == [root |-> FALSE, ev |-> ev, lo |-> e \div 100, hi |-> (e \div 10) % 10, nb |-> e % 10]
CasesHOf(k, f) == {HCase(ev, e) : ev \in With(k, f, Events), e \in EdgeSets}
\* edges lo + (hi-lo) b / nb ; compare x * nb with the scaled edges to stay in the integers
EdgeS(cs, b) == cs.lo * cs.nb + (cs.hi - cs.lo) * b                \* edge b (0..nb) times nb
InHBin(cs, x, b) == /\ EdgeS(cs, b - 1) <= x * cs.nb
                    /\ (x * cs.nb < EdgeS(cs, b) \/ (b = cs.nb /\ x * cs.nb = EdgeS(cs, b)))   \* last bin closed
InRange(cs, x) == cs.lo <= x /\ x <= cs.hi
RECURSIVE SeqSum(_)
SeqSum(s) == IF Len(s) = 0 THEN 0 ELSE Head(s) + SeqSum(Tail(s))
\* per event: contribution to bin b (0 outside the bin)
CountH(cs, b) == SeqSum([i \in DOMAIN cs.ev |-> IF InHBin(cs, cs.ev[i][1], b) THEN cs.ev[i][2] ELSE 0])
Err2H(cs, b) == SeqSum([i \in DOMAIN cs.ev |-> IF InHBin(cs, cs.ev[i][1], b) THEN cs.ev[i][2] * cs.ev[i][2] ELSE 0])
NEvH(cs, b) == SeqSum([i \in DOMAIN cs.ev |-> IF InHBin(cs, cs.ev[i][1], b) THEN 1 ELSE 0])
SumInRange(cs, pw) == SeqSum([i \in DOMAIN cs.ev |-> IF InRange(cs, cs.ev[i][1])
                                                    THEN (IF pw = 1 THEN cs.ev[i][2] ELSE cs.ev[i][2] * cs.ev[i][2]) ELSE 0])

HistExactlyOne == c.root \/ (\A i \in DOMAIN c.ev :
    Cardinality({b \in 1..c.nb : InHBin(c, c.ev[i][1], b)}) = (IF InRange(c, c.ev[i][1]) THEN 1 ELSE 0))
HistConservesW == c.root \/ (SeqSum([b \in 1..c.nb |-> CountH(c, b)]) = SumInRange(c, 1))
HistConservesW2 == c.root \/ (SeqSum([b \in 1..c.nb |-> Err2H(c, b)]) = SumInRange(c, 2))
RowH(cs) == [x |-> [i \in DOMAIN cs.ev |-> cs.ev[i][1]], w |-> [i \in DOMAIN cs.ev |-> cs.ev[i][2]],
             lo |-> cs.lo, hi |-> cs.hi, nb |-> cs.nb,
             count |-> [b \in 1..cs.nb |-> CountH(cs, b)],
             err2 |-> [b \in 1..cs.nb |-> Err2H(cs, b)],
             nev |-> [b \in 1..cs.nb |-> NEvH(cs, b)]]

-----------------------------------------------------------------------------
\* One root state per (number of events, first event); its successors are the cases of that
\* class, one state per case (TLC's workers share the evaluation of the theorems).
Firsts == IF Mode = "adapt1" THEN 0..VMax ELSE IF Mode = "adapt2" THEN Pairs ELSE Events
Roots == {[root |-> TRUE, k |-> k, f |-> f] : k \in 1..MaxEv, f \in Firsts}
         \cup (IF Mode = "hist" THEN {[root |-> TRUE, k |-> 0, f |-> <<0, 0>>]} ELSE {})
Init == c \in Roots
Next == IF c.root
        THEN c' \in (IF Mode = "adapt1" THEN Cases1Of(c.k, c.f)
                     ELSE IF Mode = "adapt2" THEN Cases2Of(c.k, c.f)
                     ELSE IF c.k = 0 THEN {HCase(<<>>, e) : e \in EdgeSets} ELSE CasesHOf(c.k, c.f))
        ELSE UNCHANGED vars

\* the harness selects cases as <<k, fi, j>>: class (k events, fi-th first event), j-th case of the class
Sel == JsonDeserialize(IOEnv.IN_FILE)
FirstSeq == SetToSeq(Firsts)
CasesOf(k, f) == IF Mode = "adapt1" THEN Cases1Of(k, f)
                 ELSE IF Mode = "adapt2" THEN Cases2Of(k, f)
                 ELSE IF k = 0 THEN {HCase(<<>>, e) : e \in EdgeSets} ELSE CasesHOf(k, f)
PickCase(t) == LET k == t[1] % (MaxEv + 1)
                   kk == IF k = 0 /\ Mode # "hist" THEN 1 ELSE k
                   f == FirstSeq[(t[2] % Len(FirstSeq)) + 1]
                   all == SetToSeq(CasesOf(kk, f))
               IN all[(t[3] % Len(all)) + 1]
RowOf(cs) == IF Mode = "adapt1" THEN Row1(cs) ELSE IF Mode = "adapt2" THEN Row2(cs) ELSE RowH(cs)
Post ==
    /\ TLCGet("stats").diameter >= 0
    /\ JsonSerialize(IOEnv.OUT_FILE, [rows |-> [j \in 1..Len(Sel.idx) |-> RowOf(PickCase(Sel.idx[j]))]])
=============================================================================
