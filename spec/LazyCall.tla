----------------------------- MODULE LazyCall -----------------------------
(* Lazily evaluated data of tf_pwa (tf_pwa/data.py:80-235, LazyCall;        *)
(* data_replace, data_split / batch_call on LazyCall objects) as a state    *)
(* machine over *objects with mutable state*.  Complements DataOps.tla,     *)
(* which treats one LazyCall in isolation.                                  *)
(*                                                                          *)
(* An object = LazyCall(f, x) : x is the raw data (0) or another object     *)
(* (a nested lazy stage, shared by every object built on it); it may own    *)
(* one extra entry (lazy["weight"] = ...); it has a batch_size (0 = None)   *)
(* and, for a HeavyCall stage, the set of batch sizes whose pipeline was    *)
(* built.  copy() / data_replace() make a sibling that shares x.            *)
(*                                                                          *)
(* as_dataset(o, b): o.batch_size := b, pushed down to every inner stage.   *)
(* iteration of o  : zip(items of x, batches of o's own extra by            *)
(*                   o.batch_size); items of a nested x are produced with   *)
(*                   the *inner* object's batch_size.                       *)
(*                                                                          *)
(* Restricted = TRUE (the property's quantifier): the public entry points   *)
(* data_split / batch_call = Use(o, b) = as_dataset immediately followed by *)
(* the iteration.  Theorem UseFaithful: after every history of Use on       *)
(* siblings with alternating batch sizes, wraps and replaces, the batches   *)
(* of o are aligned (own extra and every inner extra cut at the same        *)
(* events) and their merge is the eager eval.                               *)
(* Restricted = FALSE adds AsDataset and Iterate as separate actions; then  *)
(* IterFaithful is refuted by TLC (an iterator obtained earlier goes stale  *)
(* when a sibling re-batches the shared stage): informational.              *)
EXTENDS Integers, Sequences, FiniteSets, TLC

CONSTANTS N,           \* number of events
          Batches,     \* batch sizes offered
          MaxObjs,     \* largest number of objects
          AllowHeavy,  \* offer HeavyCall stages
          Restricted   \* only the public entry point Use

VARIABLES objs,        \* sequence of objects
          obs          \* what the last step delivered
vars == <<objs, obs>>

Min2(a, b) == IF a < b THEN a ELSE b
NB(b) == (N + b - 1) \div b
Events == [e \in 1..N |-> e]
SplitEv(b) == [j \in 1..NB(b) |-> SubSeq(Events, (j - 1) * b + 1, Min2(j * b, N))]

Obj(x, ekey, ever, heavy) == [x |-> x, ekey |-> ekey, ever |-> ever, bs |-> 0, heavy |-> heavy, cached |-> {}]
NoObs == [kind |-> "none", o |-> 0, lens |-> <<>>, ok |-> TRUE]

\* chain of stages below o (o first)
RECURSIVE Chain(_, _)
Chain(os, o) == IF os[o].x = 0 THEN <<o>> ELSE <<o>> \o Chain(os, os[o].x)
InChain(os, o) == {Chain(os, o)[i] : i \in 1..Len(Chain(os, o))}

\* as_dataset: batch_size := b on o and on every inner stage; a HeavyCall
\* stage builds (once) the pipeline for b from the eager value of its x
Push(os, o, b) ==
    [i \in 1..Len(os) |->
        IF i \in InChain(os, o)
        THEN [os[i] EXCEPT !.bs = b, !.cached = IF os[i].heavy THEN @ \cup {b} ELSE @]
        ELSE os[i]]

\* items an iteration of o delivers: [xs |-> events of the batch, ok |-> every
\* extra entry in the batch belongs to exactly these events]
RECURSIVE Items(_, _)
Items(os, o) ==
    LET me == os[o]
        base == IF me.heavy /\ me.bs \in me.cached
                THEN [j \in 1..NB(me.bs) |-> [xs |-> SplitEv(me.bs)[j], ok |-> TRUE]]   \* own pipeline
                ELSE IF me.x = 0
                     THEN [j \in 1..NB(me.bs) |-> [xs |-> SplitEv(me.bs)[j], ok |-> TRUE]]
                     ELSE Items(os, me.x)                                            \* inner batch size!
    IN IF me.ekey = 0 THEN base                                                       \* itertools.repeat({})
       ELSE LET ex == SplitEv(me.bs)
                n == Min2(Len(base), Len(ex))                                         \* zip
            IN [j \in 1..n |-> [xs |-> base[j].xs, ok |-> base[j].ok /\ base[j].xs = ex[j]]]

RECURSIVE Concat(_, _)
Concat(it, j) == IF j = 0 THEN <<>> ELSE Concat(it, j - 1) \o it[j].xs
Ready(os, o) == \A i \in InChain(os, o) : os[i].bs # 0
Observe(os, o, kind) ==
    LET it == Items(os, o) IN
    [kind |-> kind, o |-> o,
     lens |-> [j \in 1..Len(it) |-> Len(it[j].xs)],
     ok |-> /\ \A j \in 1..Len(it) : it[j].ok
            /\ Concat(it, Len(it)) = Events]

--------------------------------------------------------------------------
Init == /\ objs = <<Obj(0, 0, 0, FALSE)>>          \* LazyCall(stage, raw data)
        /\ obs = NoObs

\* data_split(o, b) / batch_call(f, o, b): as_dataset then iterate
Use(o, b) ==
    /\ o \in 1..Len(objs) /\ b \in Batches
    /\ LET os == Push(objs, o, b) IN
         /\ objs' = os
         /\ obs' = Observe(os, o, "use")

\* a new stage on top of o, optionally with its own extra entry
Wrap(o, heavy, extra) ==
    /\ o \in 1..Len(objs) /\ Len(objs) < MaxObjs
    /\ (heavy => AllowHeavy)
    /\ LET id == Len(objs) + 1 IN
       objs' = Append(objs, Obj(o, IF extra THEN id ELSE 0, IF extra THEN id ELSE 0, heavy))
    /\ obs' = NoObs

\* data_replace(o, key, new value) = copy() sharing x, fresh state, then the
\* own entry replaced (or added)
Replace(o) ==
    /\ o \in 1..Len(objs) /\ Len(objs) < MaxObjs
    /\ LET id == Len(objs) + 1
           me == objs[o] IN
       objs' = Append(objs, Obj(me.x, IF me.ekey = 0 THEN id ELSE me.ekey, id, me.heavy))
    /\ obs' = NoObs

\* unrestricted: the two halves of Use as separate steps
AsDataset(o, b) ==
    /\ ~Restricted
    /\ o \in 1..Len(objs) /\ b \in Batches
    /\ objs' = Push(objs, o, b)
    /\ obs' = NoObs
Iterate(o) ==
    /\ ~Restricted
    /\ o \in 1..Len(objs) /\ Ready(objs, o)
    /\ obs' = Observe(objs, o, "iterate")
    /\ UNCHANGED objs

Next == \/ \E o \in 1..MaxObjs : \E b \in Batches : Use(o, b)
        \/ \E o \in 1..MaxObjs : \E h, e \in BOOLEAN : Wrap(o, h, e)
        \/ \E o \in 1..MaxObjs : Replace(o)
        \/ \E o \in 1..MaxObjs : \E b \in Batches : AsDataset(o, b)
        \/ \E o \in 1..MaxObjs : Iterate(o)
Spec == Init /\ [][Next]_vars

--------------------------------------------------------------------------
TypeOK == /\ Len(objs) \in 1..MaxObjs
          /\ \A i \in 1..Len(objs) : /\ objs[i].x \in 0..(i - 1)
                                     /\ objs[i].bs \in Batches \cup {0}
                                     /\ objs[i].cached \subseteq Batches
\* as_dataset reaches every inner stage: below a prepared object everything
\* is prepared -- but not necessarily for the same batch size (siblings)
PushedDown == \A o \in 1..Len(objs) : objs[o].bs # 0 => Ready(objs, o)
\* the property: lazy content through the public entry point = eager content
UseFaithful == obs.kind = "use" => obs.ok /\ Len(obs.lens) = NB(objs[obs.o].bs)
\* not a theorem once AsDataset / Iterate are separate (stale iterator)
IterFaithful == obs.kind = "iterate" => obs.ok
==========================================================================
