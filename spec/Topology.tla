--------------------------- MODULE Topology ---------------------------
(* Decay-chain topologies (tf_pwa/particle.py: DecayChain.from_particles,   *)
(* _Chain_Graph, sorted_table, from_sorted_table, topology_id/topology_same,*)
(* DecayGroup.topology_structure / get_chains_map).                         *)
(*                                                                          *)
(* Two descriptions of the same thing:                                      *)
(*  (1) the edge-insertion step machine of from_particles (one AddNode per  *)
(*      recursion level of get_graphs) -- implementation shaped;            *)
(*  (2) the declarative set CF(n) of canonical forms (set of leaf sets of   *)
(*      the inner nodes = the values of sorted_table()).                    *)
(* TLC checks that (1) only reaches members of (2), that (2) obeys the      *)
(* counting law (2n-3)!!, that insertions never collide, that a canonical   *)
(* form determines the tree (FromTable), and evaluates the identical-       *)
(* particle classes.  The tables are written as JSON for the harness.       *)
EXTENDS Integers, Sequences, FiniteSets, TLC, Json, IOUtils, FiniteSetsExt, SequencesExt

CONSTANTS N,          \* number of final-state particles (leaves 1..N)
          NameN,      \* largest n for which all leaf namings are tabulated
          LawN        \* largest n for which the declarative CF(n) is evaluated

VARIABLES edges, nxt, cnt,
          canon      \* the canonical form, maintained by the declarative rule Ins
vars == <<edges, nxt, cnt, canon>>

Top == 0
Leaves == 1..N
Node(k) == 100 + k

Singles(k) == {{l} : l \in 1..k}
\* declarative insertion of leaf p on the edge above the subtree with leaf set S:
\* every grouping strictly containing S gains p, and S+p is a new grouping
Ins(c, S, p) == {IF (S \subseteq T /\ S # T) THEN T \cup {p} ELSE T : T \in c} \cup {S \cup {p}}

Children(g, x) == {e[2] : e \in {f \in g : f[1] = x}}
Parents(g, x)  == {e[1] : e \in {f \in g : f[2] = x}}
RECURSIVE Below(_, _)
Below(g, x) == IF x \in Leaves THEN {x}
               ELSE UNION {Below(g, y) : y \in Children(g, x)}
InnerNodes(g) == {e[1] : e \in g} \ {Top}
Canon(g) == {Below(g, x) : x \in InnerNodes(g)}

--------------------------------------------------------------------------
(* (1) step machine: _Chain_Graph.add_node on every edge                    *)
Init == edges = {<<Top, 1>>} /\ nxt = 2 /\ cnt = 0 /\ canon = {}

AddNode(e) ==
    /\ nxt <= N
    /\ e \in edges
    /\ edges' = (edges \ {e}) \cup
                {<<e[1], Node(cnt)>>, <<Node(cnt), e[2]>>, <<Node(cnt), nxt>>}
    /\ nxt' = nxt + 1
    /\ cnt' = cnt + 1
    /\ canon' = Ins(canon, Below(edges, e[2]), nxt)

Next == \E e \in edges : AddNode(e)
Spec == Init /\ [][Next]_vars

Complete == nxt = N + 1

--------------------------------------------------------------------------
(* (2) declarative canonical forms                                          *)
RECURSIVE CF(_)
CF(k) == IF k = 1 THEN {{}}
         ELSE UNION {{Ins(c, S, k) : S \in c \cup Singles(k - 1)} : c \in CF(k - 1)}
\* number of (form, edge) pairs = number of graphs get_graphs returns
RECURSIVE NGraphs(_)
NGraphs(k) == IF k = 1 THEN 1 ELSE NGraphs(k - 1) * (2 * (k - 1) - 1)
RECURSIVE DoubleFact(_)
DoubleFact(k) == IF k <= 1 THEN 1 ELSE k * DoubleFact(k - 2)

CFN == CF(N)

\* a canonical form determines the tree: children of T are the maximal proper
\* subsets among the other groupings and the single leaves
Sub(c, T) == {S \in c \cup Singles(N) : S \subseteq T /\ S # T}
Kids(c, T) == {S \in Sub(c, T) : ~\E S2 \in Sub(c, T) : S \subseteq S2 /\ S # S2}
IsBinaryForm(c) ==
    /\ 1..N \in c
    /\ Cardinality(c) = N - 1
    /\ \A T \in c : /\ Cardinality(Kids(c, T)) = 2
                    /\ UNION Kids(c, T) = T
                    /\ \A A, B \in Kids(c, T) : A # B => A \cap B = {}
\* FromTable: rebuild the edge relation over leaf sets, then re-derive the form
FromTable(c) == {e \in c \X (c \cup Singles(N)) : e[2] \in Kids(c, e[1])}
CanonOfTable(ed) == {e[1] : e \in ed}

--------------------------------------------------------------------------
(* invariants of the step machine                                           *)
TypeOK == /\ nxt \in 2..(N + 1) /\ cnt = nxt - 2
          /\ Cardinality(edges) = 2 * (nxt - 1) - 1

BinaryTree == Complete =>
    /\ Cardinality(Children(edges, Top)) = 1
    /\ \A x \in InnerNodes(edges) : /\ Cardinality(Children(edges, x)) = 2
                                    /\ Cardinality(Parents(edges, x)) = 1
    /\ \A l \in Leaves : Cardinality(Parents(edges, l)) = 1
    /\ {e[2] : e \in edges} \cap Leaves = Leaves

\* refinement mapping between the two descriptions, at every state
Refinement == canon = Canon(edges)
\* used with VIEW: TLC then counts distinct canonical forms per level
CanonView == <<canon, nxt>>

CanonDetermines == Complete =>
    LET c == Canon(edges) IN
      /\ IsBinaryForm(c)
      /\ CanonOfTable(FromTable(c)) = c
      \* the tree rebuilt from the table has the same parent/child leaf sets
      /\ \A x \in InnerNodes(edges) :
            Kids(c, Below(edges, x)) = {Below(edges, y) : y \in Children(edges, x)}

--------------------------------------------------------------------------
(* identical particles: leaves carry names; topology_id(identical=True) is  *)
(* the bag of bags of names                                                 *)
Sig(c, nm, n) ==
    LET K == Max({nm[l] : l \in 1..n})
        NC(S) == [x \in 1..K |-> Cardinality({l \in S : nm[l] = x})]
        full == c \cup Singles(n)
        vs == {NC(S) : S \in full}
    IN {<<v, Cardinality({S \in full : NC(S) = v})>> : v \in vs}
\* namings up to renaming: restricted-growth strings
RECURSIVE RGS(_)
RGS(k) == IF k = 1 THEN {<<1>>}
          ELSE UNION {{Append(s, x) : x \in 1..(Max({s[i] : i \in 1..(k - 1)}) + 1)} : s \in RGS(k - 1)}

--------------------------------------------------------------------------
(* global theorems + tables, evaluated once at the end of the run           *)
CountingLaw ==
    /\ Cardinality(CFN) = DoubleFact(2 * N - 3)
    /\ Cardinality(CFN) = NGraphs(N)               \* no two insertions collide
    /\ \A c \in CFN : IsBinaryForm(c)



NameTable(n) ==
    LET forms == SetToSeq(CF(n)) IN
    [forms |-> forms,
     namings |-> {<<nm, [i \in 1..Len(forms) |-> Sig(forms[i], nm, n)]>> : nm \in RGS(n)}]

\* the tree of every form: grouping -> its two daughters' groupings
Trees == {<<c, {<<T, Kids(c, T)>> : T \in c}>> : c \in CFN}

\* pair mode: verdicts for (form a, form b, leaf naming) triples supplied by
\* the harness (used for n = 6, 7 where the full pair table is too large)
PairsIn == JsonDeserialize(IOEnv.IN_FILE)
AsForm(x) == {ToSet(g) : g \in ToSet(x)}
PairsPost ==
    /\ TLCGet("stats").diameter >= 0
    /\ JsonSerialize(IOEnv.OUT_FILE,
         [verdicts |-> [k \in 1..Len(PairsIn) |->
             <<Sig(AsForm(PairsIn[k].a), PairsIn[k].nm, N) = Sig(AsForm(PairsIn[k].b), PairsIn[k].nm, N),
               AsForm(PairsIn[k].a) = AsForm(PairsIn[k].b)>>]])
Stutter == UNCHANGED vars

Post ==
    /\ TLCGet("stats").diameter >= 0
    /\ (N <= LawN => CountingLaw)
    /\ JsonSerialize(IOEnv.OUT_FILE,
         [n |-> N,
          dfact |-> DoubleFact(2 * N - 3),
          forms |-> IF N <= LawN THEN CFN ELSE {},
          trees |-> IF N <= LawN THEN Trees ELSE {},
          names |-> IF N <= NameN THEN NameTable(N) ELSE [forms |-> <<>>, namings |-> {}]])
==========================================================================
