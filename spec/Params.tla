----------------------------- MODULE Params -----------------------------
(* The parameter manager of tf-pwa (tf_pwa/variable.py: VarsManager).      *)
(* One specification variable per implementation attribute, one action per *)
(* public method, bodies transcribed line by line from the code -- defects  *)
(* included: a specification that idealises cannot be replayed.            *)
(*                                                                         *)
(*   cell[n]   identity of variables[n] (tied names share one cell)        *)
(*   store[c]  value held by cell c (physical value "y")                   *)
(*   free      trainable_vars (sequence: optimiser coordinate order)       *)
(*   polar[z]  complex_vars[z]                                             *)
(*   same      same_list (sequence of sequences, head first)               *)
(*   bnd[n]    n \in DOMAIN bnd_dic                                         *)
(*   mask      mask_vars                                                   *)
(*   initv[n]  init_val[n] (None = no entry)                               *)
(*   phase     position in the order a configuration applies operations:   *)
(*             1 fix/free, 2 tie, 3 bound, 4 free interleaving             *)
(*                                                                         *)
(* Value lattice.  Real cells hold small integers.  A complex parameter z  *)
(* owns the cells zr, zi; in polar form zi holds the phase in units of     *)
(* pi/2 (k), so rp2xy / xy2rp / std_polar are exact maps as long as the    *)
(* Cartesian form stays on an axis (guards OnAxis below).                  *)
(* The bound transformation is the custom expression "x+1" with limits     *)
(* (Lo,Hi): x2y(x) = x+1, y2x(y) = clip(y,Lo,Hi)-1, exact on the lattice;  *)
(* the analytic bound kinds are checked numerically (C16-b).               *)
EXTENDS Integers, Sequences, FiniteSets, TLC, SequencesExt

CONSTANTS RealSeq,    \* names of real parameters in creation order, e.g. <<"a","b">>
          CplxSeq,    \* names of complex parameters in creation order, e.g. <<"z","w">>
          V,          \* lattice values used in assignments
          StdPolarWraps, \* TRUE: std_polar stores the wrapped phase (repaired code); FALSE: it discards it
          Lo, Hi,     \* limits of the bound
          MaxDepth,   \* bound on the length of behaviours
          None

VARIABLES cell, store, free, polar, same, bnd, mask, initv, phase, depth
vars == <<cell, store, free, polar, same, bnd, mask, initv, phase, depth>>

Reals == {RealSeq[i] : i \in DOMAIN RealSeq}
Cplx == {CplxSeq[i] : i \in DOMAIN CplxSeq}
R(z) == z \o "r"
I(z) == z \o "i"
CompNames == {R(z) : z \in Cplx} \cup {I(z) : z \in Cplx}
Names == Reals \cup CompNames
\* creation order = iteration order of the implementation's dictionaries
RECURSIVE CompSeqOf(_)
CompSeqOf(zs) == IF zs = <<>> THEN <<>> ELSE <<R(Head(zs)), I(Head(zs))>> \o CompSeqOf(Tail(zs))
NameSeq == RealSeq \o CompSeqOf(CplxSeq)
HeadOf(n) == CHOOSE z \in Cplx : n \in {R(z), I(z)}
IsPhaseCell(n) == n \in {I(z) : z \in Cplx}

Abs(x) == IF x < 0 THEN -x ELSE x
Cos4(k) == CASE k % 4 = 0 -> 1 [] k % 4 = 1 -> 0 [] k % 4 = 2 -> -1 [] OTHER -> 0
Sin4(k) == CASE k % 4 = 0 -> 0 [] k % 4 = 1 -> 1 [] k % 4 = 2 -> 0 [] OTHER -> -1
\* atan2 in units of pi/2 for points on an axis
Atan4(y, x) == IF y = 0 THEN (IF x >= 0 THEN 0 ELSE 2) ELSE (IF y > 0 THEN 1 ELSE -1)

\* --- bound "x+1" on [Lo,Hi] -------------------------------------------
X2Y(x) == x + 1
Clip(y) == IF y < Lo THEN Lo ELSE IF y > Hi THEN Hi ELSE y
Y2X(y) == Clip(y) - 1

\* --- reads ---------------------------------------------------------------
Val(n) == store[cell[n]]                                   \* get(n, val_in_fit=False)
GetFit(n) == IF bnd[n] THEN Y2X(Val(n)) ELSE Val(n)        \* get(n, val_in_fit=True)
Read(n) == IF mask[n] # None THEN mask[n] ELSE Val(n)      \* read(n) / get_all_dic()[n]
Reads == [n \in Names |-> Read(n)]
Phys == [n \in Names |-> Val(n)]
\* complex value as seen by Variable.__call__ (ignoring masks)
CVal(z) == IF polar[z] THEN <<Val(R(z)) * Cos4(Val(I(z))), Val(R(z)) * Sin4(Val(I(z)))>>
           ELSE <<Val(R(z)), Val(I(z))>>
CVals == [z \in Cplx |-> CVal(z)]
OnAxis(z) == polar[z] \/ Val(R(z)) = 0 \/ Val(I(z)) = 0
\* lattice restriction: an overriding (mask) value of a component is held in the units of the
\* coordinate form it was given in, so coordinate changes are explored without such masks
NoCompMask == \A n \in CompNames : mask[n] = None

AxisAfterSet(n, v) ==
    \* keep Cartesian complex values on an axis (lattice restriction of the model)
    n \in CompNames =>
      LET z == HeadOf(n) IN
        polar[z] \/ v = 0 \/ (IF n = R(z) THEN Val(I(z)) ELSE Val(R(z))) = 0

FreeCells == {cell[n] : n \in Range(free)}
IsFixed(n) == cell[n] \notin FreeCells

Tick == depth' = depth + 1 /\ depth < MaxDepth

--------------------------------------------------------------------------
Init ==
    /\ cell = [n \in Names |-> n]
    /\ store = [n \in Names |-> IF IsPhaseCell(n) THEN 0 ELSE 1]
    /\ free = NameSeq
    /\ polar \in {[z \in Cplx |-> TRUE], [z \in Cplx |-> FALSE]}
    /\ same = <<>>
    /\ bnd = [n \in Names |-> FALSE]
    /\ mask = [n \in Names |-> None]
    /\ initv = [n \in Names |-> IF n \in Reals THEN 1 ELSE None]
    /\ phase = 1
    /\ depth = 0

--------------------------------------------------------------------------
\* phase 1: fix / free  (set_fix)
SetFix(n, v) ==                       \* set_fix(n, v)
    /\ phase = 1 /\ Tick
    /\ AxisAfterSet(n, v)
    /\ store' = [store EXCEPT ![cell[n]] = IF bnd[n] THEN Y2X(v) ELSE v]
    /\ free' = RemoveFirst(free, n)
    /\ UNCHANGED <<cell, polar, same, bnd, mask, initv, phase>>
SetFixCurrent(n) ==                   \* set_fix(n)
    /\ phase = 1 /\ Tick
    /\ free' = RemoveFirst(free, n)
    /\ UNCHANGED <<cell, store, polar, same, bnd, mask, initv, phase>>
Unfix(n) ==                           \* set_fix(n, unfix=True)
    /\ phase = 1 /\ Tick
    /\ free' = IF n \in Range(free) THEN free ELSE Append(free, n)
    /\ UNCHANGED <<cell, store, polar, same, bnd, mask, initv, phase>>

--------------------------------------------------------------------------
\* phase 2: ties
\* same_real(L): L filtered to existing names; everything points to L[1]'s cell
SameRealFree(L, fr) ==
    LET RECURSIVE Go(_, _)
        Go(i, f) == IF i > Len(L) THEN f
                    ELSE IF L[i] \in Range(f) THEN Go(i + 1, RemoveFirst(f, L[i]))
                    ELSE Go(i + 1, RemoveFirst(f, L[1]))
    IN IF Len(L) = 0 THEN fr ELSE Go(2, fr)
SameRealCell(L, ce) == IF Len(L) = 0 THEN ce
                       ELSE [n \in Names |-> IF n \in Range(L) THEN ce[L[1]] ELSE ce[n]]

\* the scan of set_same over same_list; names not in variables (complex heads) are skipped
ScanSame(nl) ==
    LET RECURSIVE Go(_, _, _, _)
        Go(i, sl, tmp, heads) ==
            IF i > Len(nl) THEN <<sl, tmp, heads>>
            ELSE IF nl[i] \notin Names THEN Go(i + 1, sl, tmp, heads)
            ELSE LET hits == {j \in DOMAIN sl : nl[i] \in Range(sl[j])}
                 IN IF hits = {} THEN Go(i + 1, sl, tmp, heads)
                    ELSE LET j == CHOOSE x \in hits : \A y \in hits : x <= y
                         IN Go(i + 1, RemoveAt(sl, j), tmp \o sl[j], Append(heads, sl[j][1]))
    IN Go(1, same, <<>>, <<>>)

\* the name owning the shared variable (newl[1]) is kept first in the stored group
OwnerFirst(full, newl) ==
    IF newl # <<>> /\ newl[1] \in Range(full)
    THEN <<newl[1]>> \o SelectSeq(full, LAMBDA x : x # newl[1]) ELSE full

SetSame(nl, cplx) ==                  \* set_same(nl, cplx)
    /\ phase <= 2 /\ Tick
    \* components that already are one variable (tied as whole complex numbers before) are not tied
    \* again: set_same cannot tell such a non-owner from a fixed name (recorded as an observation)
    /\ (~cplx /\ nl[1] \in CompNames) => cell[nl[1]] # cell[nl[2]]
    /\ LET sc == ScanSame(nl)
           sl == sc[1]
           tmp == sc[2]
           heads == sc[3]
           newl == heads \o SelectSeq(nl, LAMBDA x : x \notin Range(tmp))
           full0 == nl \o SelectSeq(tmp, LAMBDA x : x \notin Range(nl))
           full == OwnerFirst(full0, newl)
       IN IF cplx
          THEN LET Lr == [i \in DOMAIN newl |-> R(newl[i])]
                   Li == [i \in DOMAIN newl |-> I(newl[i])]
                   f1 == SameRealFree(Lr, free)
               IN /\ free' = SameRealFree(Li, f1)
                  /\ cell' = SameRealCell(Li, SameRealCell(Lr, cell))
                  /\ same' = Append(sl, full)
          ELSE /\ free' = SameRealFree(newl, free)
               \* members of the merged groups follow the new head as well
               /\ cell' = LET c1 == SameRealCell(newl, cell)
                          IN [n \in Names |-> IF n \in Range(tmp) THEN c1[newl[1]] ELSE c1[n]]
               /\ same' = Append(sl, full)
    /\ phase' = 2
    /\ UNCHANGED <<store, polar, bnd, mask, initv>>

\* xy2rp as a function on (cell, store, polar) -> new store; flags handled by callers
StoreRp2xy(z, st) ==
    LET r == st[cell[R(z)]]  p == st[cell[I(z)]]
    IN [[st EXCEPT ![cell[R(z)]] = r * Cos4(p)] EXCEPT ![cell[I(z)]] = r * Sin4(p)]
StoreXy2rp(z, st) ==
    LET x == st[cell[R(z)]]  y == st[cell[I(z)]]
    IN [[st EXCEPT ![cell[R(z)]] = Abs(x) + Abs(y)] EXCEPT ![cell[I(z)]] = Atan4(y, x)]
\* the loop "for l in same_list: if name in l: for i in l: complex_vars[i] = flag; break"
FlagPartners(z, pol, flag) ==
    LET hits == {j \in DOMAIN same : z \in Range(same[j])}
    IN IF hits = {} THEN [pol EXCEPT ![z] = flag]
       ELSE LET j == CHOOSE x \in hits : \A y \in hits : x <= y
            IN [w \in Cplx |-> IF w = z \/ w \in Range(same[j]) THEN flag ELSE pol[w]]

\* a component of z is shared with other names (set_share_r, tie of a component)
SharedComp(z) == \E j \in DOMAIN same : R(z) \in Range(same[j]) \/ I(z) \in Range(same[j])
\* sequential application over a sequence of complex names
RECURSIVE Xy2rpSeq(_, _, _)
Xy2rpSeq(zs, st, pol) ==
    IF zs = <<>> THEN <<st, pol>>
    ELSE LET z == Head(zs)
         IN IF pol[z] \/ SharedComp(z) THEN Xy2rpSeq(Tail(zs), st, pol)
            ELSE Xy2rpSeq(Tail(zs), StoreXy2rp(z, st), FlagPartners(z, pol, TRUE))
RECURSIVE Rp2xySeq(_, _, _)
Rp2xySeq(zs, st, pol) ==
    IF zs = <<>> THEN <<st, pol>>
    ELSE LET z == Head(zs)
         IN IF ~pol[z] \/ SharedComp(z) THEN Rp2xySeq(Tail(zs), st, pol)
            ELSE Rp2xySeq(Tail(zs), StoreRp2xy(z, st), FlagPartners(z, pol, FALSE))

SetShareR(zs) ==                      \* set_share_r(zs): xy2rp_all(zs); set_same(r parts); flags True
    /\ phase <= 2 /\ Tick
    /\ cell[R(zs[1])] # cell[R(zs[2])]              \* see SetSame: no redundant re-tie
    /\ \A z \in Range(zs) : OnAxis(z)
    /\ LET conv == Xy2rpSeq(zs, store, polar)
           nl == [i \in DOMAIN zs |-> R(zs[i])]
           sc == ScanSame(nl)
           newl == sc[3] \o SelectSeq(nl, LAMBDA x : x \notin Range(sc[2]))
           full == OwnerFirst(nl \o SelectSeq(sc[2], LAMBDA x : x \notin Range(nl)), newl)
       IN /\ store' = conv[1]
          /\ polar' = [z \in Cplx |-> IF z \in Range(zs) THEN TRUE ELSE conv[2][z]]
          /\ free' = SameRealFree(newl, free)
          /\ cell' = LET c1 == SameRealCell(newl, cell)
                     IN [n \in Names |-> IF n \in Range(sc[2]) THEN c1[newl[1]] ELSE c1[n]]
          /\ same' = Append(sc[1], full)
    /\ phase' = 2
    /\ UNCHANGED <<bnd, mask, initv>>

--------------------------------------------------------------------------
\* phase 3: bounds (also the prologue / epilogue of a fit)
SetBound(n) ==                        \* set_bound({n: (Lo,Hi)}, func="x+1")
    /\ phase <= 4 /\ Tick
    /\ n \in Reals
    /\ bnd' = [bnd EXCEPT ![n] = TRUE]
    /\ phase' = IF phase < 3 THEN 3 ELSE phase
    /\ UNCHANGED <<cell, store, free, polar, same, mask, initv>>
RemoveBound ==                        \* remove_bound()
    /\ phase >= 3 /\ Tick
    /\ \E n \in Names : bnd[n]
    /\ bnd' = [n \in Names |-> FALSE]
    /\ phase' = 4
    /\ UNCHANGED <<cell, store, free, polar, same, mask, initv>>

--------------------------------------------------------------------------
\* phase 4: arbitrary interleaving
Enter4 == phase' = 4
StoreSet(st, n, v, inFit) == [st EXCEPT ![cell[n]] = IF inFit /\ bnd[n] THEN X2Y(v) ELSE v]

Set(n, v, inFit) ==                   \* set(n, v, val_in_fit=inFit)
    /\ Tick /\ Enter4
    /\ AxisAfterSet(n, v)
    /\ store' = StoreSet(store, n, v, inFit)
    /\ UNCHANGED <<cell, free, polar, same, bnd, mask, initv>>

WriteBack ==                          \* set_all(get_all_dic())
    /\ Tick /\ Enter4
    /\ LET RECURSIVE Go(_, _)
           Go(ns, st) == IF ns = <<>> THEN st
                         ELSE Go(Tail(ns), [st EXCEPT ![cell[Head(ns)]] = Read(Head(ns))])
       IN store' = Go(NameSeq, store)
    /\ UNCHANGED <<cell, free, polar, same, bnd, mask, initv>>

SetAllListAt(i, v, inFit) ==          \* set_all(get_all_val(inFit) with entry i := v, val_in_fit=inFit)
    /\ Tick /\ Enter4
    /\ i \in DOMAIN free
    /\ AxisAfterSet(free[i], v)
    /\ LET vals == [k \in DOMAIN free |-> IF k = i THEN v ELSE (IF inFit THEN GetFit(free[k]) ELSE Val(free[k]))]
           RECURSIVE Go(_, _)
           Go(k, st) == IF k > Len(free) THEN st ELSE Go(k + 1, StoreSet(st, free[k], vals[k], inFit))
       IN store' = Go(1, store)
    /\ UNCHANGED <<cell, free, polar, same, bnd, mask, initv>>

SetTransVarAt(i, v) ==                \* set_trans_var(x) with x = get_all_val(True), entry i := v
    /\ Tick /\ Enter4
    /\ i \in DOMAIN free
    /\ AxisAfterSet(free[i], IF bnd[free[i]] THEN X2Y(v) ELSE v)
    /\ LET xs == [k \in DOMAIN free |-> IF k = i THEN v ELSE GetFit(free[k])]
           ys == [k \in DOMAIN free |-> IF bnd[free[k]] THEN X2Y(xs[k]) ELSE xs[k]]
           RECURSIVE Go(_, _)
           Go(k, st) == IF k > Len(free) THEN st ELSE Go(k + 1, [st EXCEPT ![cell[free[k]]] = ys[k]])
       IN store' = Go(1, store)
    /\ UNCHANGED <<cell, free, polar, same, bnd, mask, initv>>

Refresh(v) ==                         \* refresh_vars(): new values for trainable names only
    /\ Tick /\ Enter4
    /\ LET vals == [n \in Range(free) |-> IF initv[n] # None THEN initv[n] ELSE v] IN
       /\ \A z \in Cplx : ~polar[z] /\ ({R(z), I(z)} \cap Range(free) # {}) => v = 0
       /\ \A n \in Range(free) : bnd[n] /\ initv[n] = None => (vals[n] >= Lo /\ vals[n] <= Hi)
       /\ \A n, m \in Range(free) : cell[n] = cell[m] => vals[n] = vals[m]
       /\ store' = [c \in Names |-> IF \E n \in Range(free) : cell[n] = c
                                     THEN vals[CHOOSE n \in Range(free) : cell[n] = c] ELSE store[c]]
    /\ UNCHANGED <<cell, free, polar, same, bnd, mask, initv>>

Rp2xy(z) ==                           \* rp2xy(z)
    /\ Tick /\ Enter4 /\ NoCompMask
    /\ LET c == Rp2xySeq(<<z>>, store, polar) IN store' = c[1] /\ polar' = c[2]
    /\ UNCHANGED <<cell, free, same, bnd, mask, initv>>
Xy2rp(z) ==                           \* xy2rp(z)
    /\ Tick /\ Enter4 /\ NoCompMask
    /\ OnAxis(z)
    /\ LET c == Xy2rpSeq(<<z>>, store, polar) IN store' = c[1] /\ polar' = c[2]
    /\ UNCHANGED <<cell, free, same, bnd, mask, initv>>
Rp2xyAll ==                           \* rp2xy_all()
    /\ Tick /\ Enter4 /\ NoCompMask
    /\ LET c == Rp2xySeq(CplxSeq, store, polar) IN store' = c[1] /\ polar' = c[2]
    /\ UNCHANGED <<cell, free, same, bnd, mask, initv>>
Xy2rpAll ==                           \* xy2rp_all()
    /\ Tick /\ Enter4 /\ NoCompMask
    /\ \A z \in Cplx : OnAxis(z)
    /\ LET c == Xy2rpSeq(CplxSeq, store, polar) IN store' = c[1] /\ polar' = c[2]
    /\ UNCHANGED <<cell, free, same, bnd, mask, initv>>

\* complex parameters connected to the set S through tied radius / phase components
RECURSIVE TiedGroup(_)
TiedGroup(S) ==
    LET more == {w \in Cplx : \E zz \in S, j \in DOMAIN same :
                    ({R(zz), I(zz)} \cap Range(same[j]) # {}) /\ ({R(w), I(w)} \cap Range(same[j]) # {})}
    IN IF more \subseteq S THEN S ELSE TiedGroup(S \cup more)
\* std_polar(z): xy2rp; if r < 0: r := |r|, phase += pi; wrap phase into [-pi, pi)
Wrap4(k) == ((k + 2) % 4) - 2
StdPolarSeq(zs, st0, pol0) ==
    LET RECURSIVE Go(_, _, _)
        Go(s, st, pol) ==
            IF s = <<>> THEN <<st, pol>>
            ELSE LET z == Head(s)
                     c == Xy2rpSeq(<<z>>, st, pol)
                     st1 == c[1]
                     stays == ~c[2][z]            \* kept in xy form (shared component): untouched
                     r == st1[cell[R(z)]]
                     \* every parameter tied to z through a radius or a phase (transitively): all their
                     \* radius cells change sign, all their phase cells get pi
                     grp == TiedGroup({z})
                     rcells == {cell[R(w)] : w \in grp}
                     pcells == {cell[I(w)] : w \in grp}
                     st2 == IF r < 0
                            THEN [cc \in Names |-> IF cc \in rcells THEN -st1[cc]
                                                  ELSE IF cc \in pcells THEN st1[cc] + 2 ELSE st1[cc]]
                            ELSE st1
                     st3 == IF StdPolarWraps THEN [st2 EXCEPT ![cell[I(z)]] = Wrap4(st2[cell[I(z)]])] ELSE st2
                 IN Go(Tail(s), IF stays THEN st1 ELSE st3, c[2])
    IN Go(zs, st0, pol0)
StdPolar(z) ==                        \* std_polar(z)
    /\ Tick /\ Enter4 /\ NoCompMask
    /\ OnAxis(z)
    /\ LET c == StdPolarSeq(<<z>>, store, polar) IN store' = c[1] /\ polar' = c[2]
    /\ UNCHANGED <<cell, free, same, bnd, mask, initv>>
HasConstraint(z) ==
    \/ \E j \in DOMAIN same : R(z) \in Range(same[j]) \/ I(z) \in Range(same[j])
    \/ bnd[R(z)] \/ bnd[I(z)]
StandardComplex ==                    \* standard_complex()
    /\ Tick /\ Enter4 /\ NoCompMask
    /\ LET zs == SelectSeq(CplxSeq, LAMBDA z : polar[z] /\ ~HasConstraint(z))
           c == StdPolarSeq(zs, store, polar)
       IN store' = c[1] /\ polar' = c[2]
    /\ UNCHANGED <<cell, free, same, bnd, mask, initv>>
StdPolarAll ==                        \* std_polar_all() = trans_params(True)
    /\ Tick /\ Enter4 /\ NoCompMask
    /\ \A z \in Cplx : OnAxis(z)
    /\ LET c == StdPolarSeq(CplxSeq, store, polar) IN store' = c[1] /\ polar' = c[2]
    /\ UNCHANGED <<cell, free, same, bnd, mask, initv>>

MaskEnter(n, v) ==                    \* with mask_params({n: v}): enter
    /\ Tick /\ Enter4
    /\ \A m \in Names : mask[m] = None
    /\ mask' = [mask EXCEPT ![n] = v]
    /\ UNCHANGED <<cell, store, free, polar, same, bnd, initv>>
MaskExit ==                           \* leave the block
    /\ Tick /\ Enter4
    /\ \E m \in Names : mask[m] # None
    /\ mask' = [n \in Names |-> None]
    /\ UNCHANGED <<cell, store, free, polar, same, bnd, initv>>

--------------------------------------------------------------------------
RealPairs == {<<x, y>> : x \in Reals, y \in Reals} \ {<<x, x>> : x \in Reals}
CplxPairs == {<<x, y>> : x \in Cplx, y \in Cplx} \ {<<x, x>> : x \in Cplx}
\* a tie of one component of two complex parameters (same component kind): set_same(["zi","wi"])
CompPairs == {<<R(p[1]), R(p[2])>> : p \in CplxPairs} \cup {<<I(p[1]), I(p[2])>> : p \in CplxPairs}

CoordAction ==
    \/ \E z \in Cplx : Rp2xy(z) \/ Xy2rp(z) \/ StdPolar(z)
    \/ Rp2xyAll \/ Xy2rpAll \/ StandardComplex \/ StdPolarAll

Next ==
    \/ \E n \in Names, v \in V : SetFix(n, v)
    \/ \E n \in Names : SetFixCurrent(n) \/ Unfix(n)
    \/ \E p \in RealPairs \cup CompPairs : SetSame(p, FALSE)
    \/ \E p \in CplxPairs : SetSame(p, TRUE) \/ SetShareR(p)
    \/ \E n \in Reals : SetBound(n)
    \/ RemoveBound
    \/ \E n \in Names, v \in V, f \in BOOLEAN : Set(n, v, f)
    \/ WriteBack
    \/ \E i \in 1..Cardinality(Names), v \in V, f \in BOOLEAN : SetAllListAt(i, v, f)
    \/ \E i \in 1..Cardinality(Names), v \in V : SetTransVarAt(i, v)
    \/ \E v \in V : Refresh(v)
    \/ CoordAction
    \/ \E n \in Names, v \in V : MaskEnter(n, v)
    \/ MaskExit

Spec == Init /\ [][Next]_vars

--------------------------------------------------------------------------
(* The properties of C16, stated independently of the action bodies.      *)

TypeOK ==
    /\ cell \in [Names -> Names]
    /\ Range(free) \subseteq Names
    /\ phase \in 1..4

\* tied names read the same value (a complex head stands for both components)
Members(g) == UNION {IF x \in Cplx THEN {R(x), I(x)} ELSE {x} : x \in Range(g)}
TiedEqual ==
    \A j \in DOMAIN same :
        LET g == same[j] IN
        IF \E x \in Range(g) : x \in Cplx
        THEN \A x, y \in Range(g) : Val(R(x)) = Val(R(y)) /\ Val(I(x)) = Val(I(y))
        ELSE \A x, y \in Range(g) : Val(x) = Val(y)

\* ... and count once among the free parameters
TiedCountOnce ==
    /\ \A i, j \in DOMAIN free : i # j => cell[free[i]] # cell[free[j]]

\* a tie of free parameters stays free (it must be counted, once)
TieKeepsFree ==
    \A p \in RealPairs \cup CompPairs :
        (SetSame(p, FALSE) /\ cell[p[1]] # cell[p[2]] /\ ~IsFixed(p[1]) /\ ~IsFixed(p[2])) => (~IsFixed(p[1]) /\ ~IsFixed(p[2]))'

\* a fixed parameter changes only when explicitly assigned
ExplicitlyAssigns(n) ==
    \/ \E m \in Names, v \in V : cell[m] = cell[n] /\ SetFix(m, v)
    \/ \E m \in Names, v \in V, f \in BOOLEAN : cell[m] = cell[n] /\ Set(m, v, f)
    \/ WriteBack /\ mask # [m \in Names |-> None]       \* writes the (masked) values it read
    \/ n \in CompNames /\ CoordAction                    \* representation change, see ComplexPreserved
    \/ phase' = 2                                        \* a tie is an explicit request to make names equal
FixedOnlyExplicit ==
    \A n \in Names : (IsFixed(n) /\ IsFixed(n)') => (Val(n)' = Val(n) \/ ExplicitlyAssigns(n))

\* reading all parameters and writing them back changes nothing
\* (stated for sessions without an active mask block: under a mask the values
\*  read are the overriding ones, and writing those back is an assignment)
ReadWriteIdentity ==
    (WriteBack /\ mask = [m \in Names |-> None]) => (Reads' = Reads /\ Phys' = Phys)

\* coordinate changes and standardisation preserve the complex value
ComplexPreserved == CoordAction => CVals' = CVals

\* standardisation gives r >= 0 and -pi <= phi < pi
\* (a Cartesian parameter one of whose components is tied to another parameter cannot be put
\*  into polar form without breaking the tie; it is left as it is)
StandardForm ==
    \A z \in Cplx : (StdPolar(z) /\ (polar[z] \/ ~SharedComp(z))) =>
                        (polar[z]' /\ Val(R(z))' >= 0 /\ Val(I(z))' \in -2..1)

\* the bound transformation and its inverse are mutually inverse on the allowed range
BoundInverse == \A y \in Lo..Hi : X2Y(Y2X(y)) = y

\* stepping the optimiser coordinates leaves every other coordinate where it was
FitStepLocal ==
    \A i \in 1..Cardinality(Names), v \in V :
        (SetTransVarAt(i, v) /\ \A n \in Range(free) : bnd[n] => (Val(n) >= Lo /\ Val(n) <= Hi)) =>
            \A k \in DOMAIN free : (k # i /\ cell[free[k]] # cell[free[i]]) => Val(free[k])' = Val(free[k])

PropFixed == [][FixedOnlyExplicit]_vars
PropTieKeepsFree == [][TieKeepsFree]_vars
PropReadWrite == [][ReadWriteIdentity]_vars
PropComplex == [][ComplexPreserved]_vars
PropStandardForm == [][StandardForm]_vars
PropFitStepLocal == [][FitStepLocal]_vars

DepthView == <<cell, store, free, polar, same, bnd, mask, initv, phase>>
==========================================================================
