---------------------------- MODULE Session ----------------------------
(* A user session with one amplitude model (tf_pwa/amp/amp.py AbsPDF /       *)
(* BaseAmplitudeModel, tf_pwa/amp/core.py DecayGroup selection methods,      *)
(* tf_pwa/variable.py temp_params / mask_params, tf_pwa/config.py            *)
(* temp_config, tf_pwa/fitfractions.py, tf_pwa/applications.py               *)
(* fit_fractions, tf_pwa/experimental/wrap_function.py).                     *)
(*                                                                           *)
(* m      the model state that a user can read:                              *)
(*          p          stored value of a probe parameter                     *)
(*          bnd        a bound is installed on it (left by a fit, or by the  *)
(*                     user): get(val_in_fit=True) then returns X(p)         *)
(*          maskv      mask_vars entry of the parameter (None = no entry)    *)
(*          maskFactor mask_factor flags of chains/decays (all equal)        *)
(*          cfg        one entry of the global configuration                 *)
(*          sel        DecayGroup.chains_idx (sequence, order/duplicates as  *)
(*                     in the code)                                          *)
(*          notFull    DecayGroup.not_full                                   *)
(*          polar      coordinate form of the complex couplings              *)
(* stack  open temporary-override blocks and running derived computations,   *)
(*        each with the state it saved and the position of its loop          *)
(* base   the read projection at the last moment the stack was empty and the *)
(*        user changed something on purpose                                  *)
(* seen / graph   AbsPDF.f_data (is the probe data set registered) and the   *)
(*        set of Python-level states for which a compiled graph was traced   *)
(*                                                                           *)
(* The constants Finally / ExactRestore / RawSave mirror the code: TRUE      *)
(* where the block restores in a finally clause / restores the saved         *)
(* selection including not_full / saves unmasked physical values.            *)
EXTENDS Integers, Sequences, FiniteSets, TLC, SequencesExt, FiniteSetsExt

CONSTANTS KeyedGraph,   \* TRUE: the compiled function is keyed by the Python-level state it froze
                        \* (retraced when that changes); FALSE: traced once and reused
          K,            \* number of decay chains; chain i contains resonance i only
          PV,           \* values of the probe parameter
          MaxDepth, MaxStack,
          Finally, ExactRestore, RawSave,
          None

VARIABLES m, stack, base, seen, graph, depth
vars == <<m, stack, base, seen, graph, depth>>

Chains == 1..K
Active(s) == {s[i] : i \in DOMAIN s}
SeqOfSet(S) == SetToSeq(S)
Tick == depth' = depth + 1 /\ depth < MaxDepth

\* value seen in optimiser coordinates when a bound is installed (an opaque tag)
X(v) == <<"x", v>>

--------------------------------------------------------------------------
\* DecayGroup selection primitives, on a model record s
SetUsedChains(s, q) == [s EXCEPT !.sel = q, !.notFull = (Len(q) # K)]
AddUsedChains(s, q) ==
    LET RECURSIVE Go(_, _)
        Go(i, cur) == IF i > Len(q) THEN cur
                      ELSE IF q[i] \in Active(cur) THEN Go(i + 1, cur) ELSE Go(i + 1, Append(cur, q[i]))
    IN [s EXCEPT !.sel = Go(1, s.sel)]
\* set_used_res(rs) with resonance names: chains containing one of them (a Python set -> list:
\* ascending for small ints); with chain indices: set_used_chains([]) then add_used_chains
SetUsedResNames(s, rs) == SetUsedChains(s, SetToSortSeq(rs, LAMBDA a, b : a < b))
SetUsedResIdx(s, q) == AddUsedChains(SetUsedChains(s, <<>>), q)

\* what a user reads: parameter value (mask-aware), active chains, flags
ReadP(s) == IF s.maskv # None THEN s.maskv ELSE s.p
Proj(s) == [p |-> s.p, rp |-> ReadP(s), active |-> Active(s.sel), maskFactor |-> s.maskFactor,
            cfg |-> s.cfg, maskv |-> s.maskv]
\* the Python-level state a tf.function trace freezes
Snap(s) == [active |-> Active(s.sel), polar |-> s.polar, maskv |-> s.maskv, maskFactor |-> s.maskFactor]

--------------------------------------------------------------------------
Init ==
    /\ m = [p |-> 1, bnd |-> FALSE, maskv |-> None, maskFactor |-> FALSE, cfg |-> 0,
            sel |-> [i \in 1..K |-> i], notFull |-> FALSE, polar |-> TRUE]
    /\ stack = <<>>
    /\ base = Proj(m)
    /\ seen = FALSE
    /\ graph = {}
    /\ depth = 0

Top == stack = <<>>
KeepCache == UNCHANGED <<seen, graph>>
AtomicKinds == {"partial_weight", "partial_weight_interference", "fit_fractions", "plot_weights"}
\* a derived computation is one Python call: nothing else happens until it returns or raises
\* (a factor iteration is a generator: the consumer's code runs between its steps)
Interleavable == IF stack = <<>> THEN TRUE ELSE stack[Len(stack)].kind \notin AtomicKinds

--------------------------------------------------------------------------
(* deliberate changes by the user, at top level only: they move the baseline *)
UserSetParam(v) ==
    /\ Top /\ Tick
    /\ m' = [m EXCEPT !.p = v]
    /\ base' = Proj(m') /\ UNCHANGED stack /\ KeepCache
UserSetChains(q) ==                    \* set_used_chains(q)
    /\ Top /\ Tick
    /\ m' = SetUsedChains(m, q)
    /\ base' = Proj(m') /\ UNCHANGED stack /\ KeepCache
UserSetRes(rs) ==                      \* set_used_res(names)
    /\ Top /\ Tick
    /\ m' = SetUsedResNames(m, rs)
    /\ base' = Proj(m') /\ UNCHANGED stack /\ KeepCache
UserSetBound(b) ==                     \* a bound present / absent in vm.bnd_dic
    /\ Top /\ Tick /\ m.bnd # b
    /\ m' = [m EXCEPT !.bnd = b]
    /\ base' = Proj(m') /\ UNCHANGED stack /\ KeepCache
UserCoord(pol) ==                      \* vm.rp2xy_all() / xy2rp_all(): same complex values
    /\ Top /\ Tick /\ m.polar # pol
    /\ m' = [m EXCEPT !.polar = pol]
    /\ base' = Proj(m') /\ UNCHANGED stack /\ KeepCache

--------------------------------------------------------------------------
(* temporary-override blocks: Enter pushes a frame                          *)
Push(f) == stack' = Append(stack, f) /\ Len(stack) < MaxStack
Frame(kind, saved) == [kind |-> kind, saved |-> saved, todo |-> <<>>, done |-> 0]

EnterTempParamsAmp(v) ==               \* with amp.temp_params({p: v})
    /\ Tick /\ Interleavable
    /\ Push(Frame("temp_params_amp", IF RawSave THEN m.p ELSE ReadP(m)))
    /\ m' = [m EXCEPT !.p = v]
    /\ UNCHANGED base /\ KeepCache
EnterTempParamsVM(v) ==                \* with vm.temp_params({p: v})
    /\ Tick /\ Interleavable
    /\ Push(Frame("temp_params_vm", IF m.bnd /\ ~RawSave THEN X(m.p) ELSE m.p))
    /\ m' = [m EXCEPT !.p = v]
    /\ UNCHANGED base /\ KeepCache
EnterTempVar ==                        \* with tf_pwa.experimental.factor_system.temp_var(vm)
    /\ Tick /\ Interleavable
    /\ Push(Frame("temp_var", IF RawSave THEN m.p ELSE ReadP(m)))
    /\ UNCHANGED <<m, base>> /\ KeepCache
\* the user's code inside a block that will put the parameter back: assigns it
RestoringKinds == {"temp_params_amp", "temp_params_vm", "temp_var"}
InnerSetParam(v) ==
    /\ Tick /\ Interleavable
    /\ \E i \in DOMAIN stack : stack[i].kind \in RestoringKinds
    /\ m' = [m EXCEPT !.p = v]
    /\ UNCHANGED <<stack, base>> /\ KeepCache
EnterMask(v) ==                        \* with amp.mask_params({p: v})
    /\ Tick /\ Interleavable
    /\ Push(Frame("mask_params", m.maskv))
    /\ m' = [m EXCEPT !.maskv = v]
    /\ UNCHANGED base /\ KeepCache
EnterTempUsedRes(rs) ==                \* with amp.temp_used_res(names)
    /\ Tick /\ Interleavable
    /\ Push(Frame("temp_used_res", [sel |-> m.sel, notFull |-> m.notFull]))
    /\ m' = SetUsedResNames(m, rs)
    /\ UNCHANGED base /\ KeepCache
EnterGlsOne ==                         \* with amp.temp_total_gls_one()
    /\ Tick /\ Interleavable
    /\ Push(Frame("temp_total_gls_one", m.maskFactor))
    /\ m' = [m EXCEPT !.maskFactor = TRUE]
    /\ UNCHANGED base /\ KeepCache
EnterTempConfig(v) ==                  \* with temp_config(key, v)
    /\ Tick /\ Interleavable
    /\ Push(Frame("temp_config", m.cfg))
    /\ m' = [m EXCEPT !.cfg = v]
    /\ UNCHANGED base /\ KeepCache

(* derived (read-only) computations: a frame with the list of selections    *)
(* still to evaluate; each CompStep is one inner evaluation of the density   *)
CompFrame(kind, saved, todo) == [kind |-> kind, saved |-> saved, todo |-> todo, done |-> 0]
Singles == [i \in 1..K |-> <<i>>]
Pairs == SetToSortSeq({q \in Chains \X Chains : q[1] < q[2]}, LAMBDA a, b : a[1] < b[1] \/ (a[1] = b[1] /\ a[2] < b[2]))
\* fit fractions loop: i = 1..n, j = i down to 1 -> {res_i} or {res_i, res_j}
FFTodo(rs) ==
    LET n == Len(rs)
        RECURSIVE Row(_, _)
        Row(i, j) == IF j < 1 THEN <<>>
                     ELSE <<IF i = j THEN {rs[i]} ELSE {rs[i], rs[j]}>> \o Row(i, j - 1)
        RECURSIVE Rows(_)
        Rows(i) == IF i > n THEN <<>> ELSE Row(i, i) \o Rows(i + 1)
    IN Rows(1)

StartPartialWeight ==                  \* amp.partial_weight(data): DecayGroup.partial_weight
    /\ Tick /\ Interleavable
    /\ Push(CompFrame("partial_weight", m.sel, Singles))
    /\ UNCHANGED <<m, base>> /\ KeepCache
StartInterference ==                   \* amp.partial_weight_interference(data)
    /\ Tick /\ Interleavable
    /\ Push(CompFrame("partial_weight_interference", m.sel, Pairs))
    /\ UNCHANGED <<m, base>> /\ KeepCache
\* fit_fractions(amp, mc, res=rs, method="old") = cal_fitfractions and method="new" =
\* FitFractions.integral / append_int: amp.set_used_res(res), then the total integral (until
\* repo commit 936ac3f the "new" route took the total with the selection that was current;
\* isNew only labels the route now)
StartFitFractions(rs, isNew) ==
    /\ Tick /\ Interleavable
    /\ Push(CompFrame("fit_fractions", m.sel, FFTodo(rs)))
    /\ m' = SetUsedResNames(m, Active(rs))
    /\ UNCHANGED base /\ KeepCache
\* tf_pwa.config_loader.plotter.PlotAllData(amp, data, phsp, res=[...]): partial weights of
\* resonance sets for plots: set_used_res(rs_i); amp(phsp) for each entry, then restore
StartPlotWeights ==
    /\ Tick /\ Interleavable
    /\ Push(CompFrame("plot_weights", m.sel, [i \in 1..K |-> {i}] \o <<Chains>>))
    /\ UNCHANGED <<m, base>> /\ KeepCache
StartFactorIteration ==                \* for chain, factors in amp.factor_iteration():
    /\ Tick /\ Interleavable
    /\ Push(CompFrame("factor_iteration", m.sel, [i \in DOMAIN m.sel |-> <<m.sel[i]>>]))
    /\ UNCHANGED <<m, base>> /\ KeepCache

IsComp(f) == f.kind \in {"partial_weight", "partial_weight_interference", "fit_fractions", "factor_iteration", "plot_weights"}

CompStep ==                            \* one inner evaluation
    /\ ~Top /\ Tick
    /\ LET f == stack[Len(stack)] IN
        /\ IsComp(f) /\ f.todo # <<>>
        /\ m' = CASE f.kind = "partial_weight" -> SetUsedResIdx(m, Head(f.todo))
                  [] f.kind = "partial_weight_interference" -> SetUsedChains(m, Head(f.todo))
                  [] f.kind = "fit_fractions" -> SetUsedResNames(m, Head(f.todo))
                  [] f.kind = "plot_weights" -> SetUsedResNames(m, Head(f.todo))
                  [] OTHER -> SetUsedChains(m, Head(f.todo))
        /\ stack' = [stack EXCEPT ![Len(stack)].todo = Tail(f.todo), ![Len(stack)].done = f.done + 1]
    /\ UNCHANGED base /\ KeepCache

\* the epilogue of a block / computation, as a function of the frame and the current model
Restore(f, s) ==
    CASE f.kind = "temp_params_amp" -> [s EXCEPT !.p = f.saved]
      [] f.kind = "temp_params_vm" -> [s EXCEPT !.p = f.saved]
      [] f.kind = "temp_var" -> [s EXCEPT !.p = f.saved]
      [] f.kind = "mask_params" -> [s EXCEPT !.maskv = f.saved]
      [] f.kind = "temp_used_res" ->
            IF ExactRestore THEN [s EXCEPT !.sel = f.saved.sel, !.notFull = f.saved.notFull]
            ELSE [s EXCEPT !.sel = f.saved.sel]
      [] f.kind = "temp_total_gls_one" -> [s EXCEPT !.maskFactor = f.saved]
      [] f.kind = "temp_config" -> [s EXCEPT !.cfg = f.saved]
      [] f.kind = "partial_weight" -> SetUsedChains(s, f.saved)
      [] f.kind = "partial_weight_interference" -> SetUsedChains(s, f.saved)
      [] f.kind = "fit_fractions" ->
            IF ExactRestore THEN SetUsedChains(s, f.saved)
            ELSE SetUsedResNames(s, Chains)            \* amp.set_used_res(amp.used_res): every resonance
      [] f.kind = "plot_weights" ->
            IF ExactRestore THEN SetUsedChains(s, f.saved) ELSE SetUsedResNames(s, Chains)
      [] f.kind = "factor_iteration" ->
            IF ExactRestore THEN SetUsedChains(s, f.saved) ELSE [s EXCEPT !.sel = f.saved]

ExitNormal ==                          \* the block / computation ends normally
    /\ ~Top /\ Tick
    /\ LET f == stack[Len(stack)] IN
        /\ IsComp(f) => f.todo = <<>>
        /\ m' = Restore(f, m)
        /\ stack' = SubSeq(stack, 1, Len(stack) - 1)
    /\ UNCHANGED base /\ KeepCache

\* an exception raised inside the innermost block unwinds every open block
RECURSIVE Unwind(_, _)
Unwind(st, s) ==
    IF st = <<>> THEN s
    ELSE LET f == st[Len(st)]
         IN Unwind(SubSeq(st, 1, Len(st) - 1), IF Finally THEN Restore(f, s) ELSE s)
Raise ==
    /\ ~Top /\ Tick
    \* inside a computation the exception comes out of an inner evaluation
    \* (fit fractions and plot weights start with an evaluation of the full integral / weights)
    /\ LET f == stack[Len(stack)] IN (f.kind \in AtomicKinds /\ f.kind \notin {"fit_fractions", "plot_weights"}) => f.done >= 1
    /\ m' = Unwind(stack, m)
    /\ stack' = <<>>
    /\ UNCHANGED base /\ KeepCache

\* a factor iteration abandoned by its consumer (break): generator closed at the yield
Abandon ==
    /\ ~Top /\ Tick
    /\ LET f == stack[Len(stack)] IN
        /\ f.kind = "factor_iteration"
        /\ m' = IF Finally THEN Restore(f, m) ELSE m
        /\ stack' = SubSeq(stack, 1, Len(stack) - 1)
    /\ UNCHANGED base /\ KeepCache

--------------------------------------------------------------------------
(* evaluating the density of the probe data set: amp(data)                  *)
\* the traced graph a compiled call would use now (a set with at most one element)
UsedGraph == IF KeyedGraph THEN {Snap(m)}                    \* traced for this state (now, if not yet)
             ELSE graph                                       \* whatever was traced first
Call ==
    /\ Tick /\ Interleavable
    /\ IF ~seen THEN seen' = TRUE /\ UNCHANGED graph                      \* first call registers, eager
       ELSE /\ UNCHANGED seen
            /\ IF m.notFull THEN UNCHANGED graph                           \* eager
               ELSE graph' = IF KeyedGraph THEN graph \cup {Snap(m)}
                             ELSE (IF graph = {} THEN {Snap(m)} ELSE graph)
    /\ UNCHANGED <<m, stack, base>>

--------------------------------------------------------------------------
ResSets == (SUBSET Chains) \ {{}}
ChainSeqs == {SetToSortSeq(S, LAMBDA a, b : a < b) : S \in ResSets}

Next ==
    \/ \E v \in PV : UserSetParam(v)
    \/ \E q \in ChainSeqs : UserSetChains(q)
    \/ \E rs \in ResSets : UserSetRes(rs)
    \/ \E b \in BOOLEAN : UserSetBound(b) \/ UserCoord(b)
    \/ \E v \in PV : EnterTempParamsAmp(v) \/ EnterTempParamsVM(v) \/ EnterMask(v)
    \/ \E rs \in ResSets : EnterTempUsedRes(rs)
    \/ EnterGlsOne
    \/ EnterTempVar
    \/ \E v \in PV : InnerSetParam(v)
    \/ EnterTempConfig(1)
    \/ StartPartialWeight \/ StartInterference \/ StartFactorIteration \/ StartPlotWeights
    \/ \E q \in ChainSeqs, b \in BOOLEAN : StartFitFractions(q, b)
    \/ CompStep \/ ExitNormal \/ Raise \/ Abandon
    \/ Call

Spec == Init /\ [][Next]_vars

--------------------------------------------------------------------------
(* C17: whenever no block is open and no computation is running, the model  *)
(* reads exactly as it did before                                            *)
Transparent == Top => Proj(m) = base

(* C05 (a): whenever the compiled path would be taken it was traced in the   *)
(* Python-level state that is current now, so it returns the eager density   *)
CompiledEqualsEager == (seen /\ ~m.notFull) => \A g \in UsedGraph : g = Snap(m)

CompiledActive == (seen /\ ~m.notFull) => \A g \in UsedGraph : g.active = Active(m.sel)
CompiledPolar == (seen /\ ~m.notFull) => \A g \in UsedGraph : g.polar = m.polar
CompiledMask == (seen /\ ~m.notFull) => \A g \in UsedGraph : g.maskv = m.maskv
CompiledMaskFactor == (seen /\ ~m.notFull) => \A g \in UsedGraph : g.maskFactor = m.maskFactor

(* C03 (selection part): set_used_res / set_used_chains select exactly the   *)
(* chains that contain the requested resonances; not_full tells the truth    *)
NotFullHonest == Top => (m.notFull <=> Active(m.sel) # Chains)
SelectionSound == Active(m.sel) \subseteq Chains

View == <<m, stack, base, seen, graph>>
==========================================================================
