--------------------------- MODULE Likelihood ---------------------------
(* The negative log-likelihood of tf-pwa (property C06), in exact arithmetic. *)
(*                                                                          *)
(*  DEFINITION  (Def, DefGroup below; the formula of the property)           *)
(*     NLL = - alpha [ sum_i w_i ln f(x_i) - (sum_i w_i) ln I ],             *)
(*     I = sum_j v_j f(y_j) / sum_j v_j,  alpha = sum w / sum w^2,           *)
(*     background events enter the sum with weight -w_bkg;                   *)
(*     extended:  ln I  is replaced by  I;                                   *)
(*     cfit:      - sum_i alpha w_i ln[(1-phi) s_i/I_s + phi b_i/I_b],       *)
(*                s = eff * f,  (+ -(sum alpha w) ln(I_s/(1-phi)) + I_s/(1-phi) *)
(*                when extended);                                            *)
(*     plus sum_c (theta_c-mu_c)^2/(2 sigma_c^2) once, and the sum over the  *)
(*     simultaneous data sets.                                               *)
(*                                                                          *)
(*  ALGORITHM   (the step machine Init/Next), transcribed from               *)
(*     tf_pwa/model/model.py  Model.get_weight_data (Blend),                 *)
(*        FCN.__init__ (PreBatch: _convert_batch, normalised MC weights),    *)
(*        BaseModel.nll_grad_batch / sum_gradient / _batch_sum (DataBatch,   *)
(*        MCBatch, Combine), FCN.__call__ -> Model.nll -> BaseModel.nll      *)
(*        (ReBlend, ValueEval), FCN.nll_grad / CombineFCN (NextGroup, Finish)*)
(*     tf_pwa/model/cfit.py   Model_cfit.nll / nll_grad_batch,               *)
(*        Model_cfit_cached.nll_grad_batch, ModelCfitExtended                *)
(*     tf_pwa/model/custom.py BaseCustomModel.nll / nll_grad_batch,          *)
(*        SimpleNllModel                                                     *)
(*     (tf_pwa/model/opt_int.py ModelCachedInt / ModelCachedAmp use the      *)
(*      accumulation scheme of "default": same machine, other amplitude      *)
(*      evaluation strategy, which is property C05's subject).               *)
(*                                                                          *)
(*  Numbers: rationals are reduced pairs <<n,d>>, d > 0.  Logarithms are     *)
(*  exact *formal* objects: ln of a positive rational is its vector of prime *)
(*  exponents, so ln(a b) = ln a + ln b holds by unique factorisation and    *)
(*  ln 2, ln 3, ln 5 ... are linearly independent atoms.  A value is         *)
(*  [q |-> rational part, lg |-> sparse map prime -> rational coefficient].  *)
(*  The densities at the data events are distinct primes, i.e. independent   *)
(*  opaque atoms "ln f_i": an identity that holds for them holds for every   *)
(*  value of ln f_i (both sides are linear in them).                         *)
(*  clip_log is the identity above its threshold 1e-6; all densities here    *)
(*  are >= 1/ (small integer), the threshold is a side condition (Admissible *)
(*  requires every argument of ln to be positive).                           *)
EXTENDS Integers, Sequences, FiniteSets, TLC, Json, IOUtils

CONSTANTS
    MaxData,     \* data events per data set: 1..MaxData
    MaxBg,       \* background events per data set: 0..MaxBg
    MaxMC,       \* MC events per data set: 1..MaxMC
    NGroups,     \* number of simultaneous data sets
    WSet,        \* data weights (rationals, may be negative)
    VSet,        \* MC weights
    BkgSet,      \* w_bkg values
    PhiSet,      \* cfit background fractions
    Kinds,       \* subset of AllKinds
    Paths,       \* subset of {"grad", "value"}
    ConstrSet,   \* sequences of Gaussian constraints
    GMChoices,   \* which MC density tables
    Scales,      \* common amplitude rescalings the machine is run at
    RaggedSw,    \* "pack": cfit_ext sums the per-batch weight list with one
                 \*   tf.reduce_sum (needs equal batch lengths, cfit.py:359);
                 \* "sum": sums batch by batch
    CachedEff,   \* "noeff": Model_cfit_cached integrates the amplitude without
                 \*   the efficiency (cfit.py:239); "eff": with it
    OnlyDefects, \* TRUE: keep only the scenarios the two switches above affect
    EmitMax      \* emit the scenario table when it has at most this many rows

VARIABLES scn, pc, gi, wts, mcw, bk, acc, sw, im, ib, tot, trail
vars == <<scn, pc, gi, wts, mcw, bk, acc, sw, im, ib, tot, trail>>

AllKinds == {"default", "extended", "cfit", "cfit_ext", "cfit_cached", "simple", "simple_pen"}
\* "simple_pen": a custom model (custom.py BaseCustomModel) whose NLL part of batch idx = 0 carries a term
\* that belongs to the data set, not to the batch (constr_frac: the fit-fraction penalty
\* 1/2 ((I_k/I - value)/sigma)^2 of eval_nll_part, custom.py:257-268): it must enter once per data set
CfitKinds == {"cfit", "cfit_ext", "cfit_cached"}
ExtKinds == {"extended", "cfit_ext"}

\* value sets selectable from a cfg by  WSet <- WQuick  etc.
WTiny == {<<1, 1>>, <<-1, 2>>}                       \* nested: WTiny < WQuick < WFull
WQuick == {<<1, 1>>, <<2, 1>>, <<-1, 2>>}
WFull == {<<1, 1>>, <<2, 1>>, <<-1, 2>>, <<-1, 1>>}
VQuick == {<<1, 1>>, <<2, 1>>}
VFull == {<<1, 1>>, <<2, 1>>, <<-1, 1>>}
VTiny == {<<2, 1>>}
BkgQuick == {<<1, 2>>}
BkgFull == {<<1, 1>>, <<1, 2>>}
PhiQuick == {<<1, 2>>}
PhiFull == {<<1, 2>>, <<1, 3>>}
NoConstr == {<<>>}
OneConstr == {<<>>, <<[th |-> <<1, 2>>, mu |-> <<1, 1>>, sg |-> <<1, 2>>]>>}
TwoConstr == {<<>>, <<[th |-> <<1, 2>>, mu |-> <<1, 1>>, sg |-> <<1, 2>>]>>,
              <<[th |-> <<1, 2>>, mu |-> <<1, 1>>, sg |-> <<1, 2>>], [th |-> <<-1, 1>>, mu |-> <<0, 1>>, sg |-> <<2, 1>>]>>}

--------------------------------------------------------------------------
(* rationals                                                                *)
Abs(x) == IF x < 0 THEN -x ELSE x
RECURSIVE GCD(_, _)
GCD(a, b) == IF b = 0 THEN a ELSE GCD(b, a % b)
Norm(n, d) == LET s == IF d < 0 THEN -1 ELSE 1
                  g == GCD(Abs(n), Abs(d))
              IN <<(s * n) \div g, (s * d) \div g>>
QZero == <<0, 1>>
QOne == <<1, 1>>
QInt(k) == <<k, 1>>
QAdd(a, b) == Norm(a[1] * b[2] + b[1] * a[2], a[2] * b[2])
QNeg(a) == <<-a[1], a[2]>>
QSub(a, b) == QAdd(a, QNeg(b))
QMul(a, b) == Norm(a[1] * b[1], a[2] * b[2])
QDiv(a, b) == Norm(a[1] * b[2], a[2] * b[1])       \* b # 0
QPos(a) == a[1] > 0
RECURSIVE QSumF(_, _, _)                            \* sum_{i=lo..hi} F[i]
QSumF(F, lo, hi) == IF lo > hi THEN QZero ELSE QAdd(F[lo], QSumF(F, lo + 1, hi))

(* formal logarithms: sparse maps prime -> rational.  TLCEval forces a       *)
(* function constructor to be evaluated once (TLC would otherwise evaluate   *)
(* its body again at every application, which compounds in chained sums)     *)
LEmpty == TLCEval([p \in {} |-> QZero])
LGet(l, p) == IF p \in DOMAIN l THEN l[p] ELSE QZero
LClean(f) == LET ff == TLCEval(f) IN TLCEval([p \in {x \in DOMAIN ff : ff[x][1] # 0} |-> ff[p]])
LAdd(a, b) == LClean([p \in (DOMAIN a) \cup (DOMAIN b) |-> QAdd(LGet(a, p), LGet(b, p))])
LScale(r, a) == LClean([p \in DOMAIN a |-> QMul(r, a[p])])
RECURSIVE Fac(_, _)                                 \* prime factorisation by trial division from d
Fac(n, d) == IF n = 1 THEN LEmpty
             ELSE IF d * d > n THEN TLCEval([p \in {n} |-> QOne])
             ELSE IF n % d = 0 THEN LAdd([p \in {d} |-> QOne], Fac(n \div d, d))
             ELSE Fac(n, d + 1)
LnInt(n) == Fac(n, 2)                               \* n >= 1
LnQ(r) == LAdd(LnInt(r[1]), LScale(<<-1, 1>>, LnInt(r[2])))   \* r > 0

(* values: rational part + formal logarithms                                *)
VZero == [q |-> QZero, lg |-> LEmpty]
VQ(r) == [q |-> r, lg |-> LEmpty]
VLn(r) == [q |-> QZero, lg |-> LnQ(r)]
VAdd(a, b) == [q |-> QAdd(a.q, b.q), lg |-> LAdd(a.lg, b.lg)]
VScale(r, a) == [q |-> QMul(r, a.q), lg |-> LScale(r, a.lg)]
VNeg(a) == VScale(<<-1, 1>>, a)
VSub(a, b) == VAdd(a, VNeg(b))
RECURSIVE VSumF(_, _, _)
VSumF(F, lo, hi) == IF lo > hi THEN VZero ELSE VAdd(F[lo], VSumF(F, lo + 1, hi))

--------------------------------------------------------------------------
(* the samples: densities as fixed tables (opaque), by data set and event   *)
FD == << <<2, 3, 5, 7, 11>>, <<13, 17, 19, 23, 29>> >>   \* |A|^2 at data events, then at bg events
GMTab == << <<1, 2, 3>>, <<3, 1, 2>>, <<2, 2, 5>> >>       \* |A|^2 at MC events (three choices)
ED == << <<1, 2, 1, 1, 2>>, <<2, 1, 1, 2, 1>> >>         \* efficiency at data events (cfit)
EM == << <<2, 1, 1>>, <<1, 1, 2>> >>                      \* efficiency at MC events
BD == << <<1, 2, 1, 3, 2>>, <<2, 1, 3, 1, 1>> >>         \* background function at data events
BM == << <<1, 3, 2>>, <<2, 1, 1>> >>                      \* background function at MC events
GK == << <<1, 1, 2>>, <<2, 1, 1>> >>                      \* |A_k|^2 of the constrained component at MC events (simple_pen)
PenValue == <<1, 5>>                                     \* value and sigma of the fit-fraction constraint
PenSigma == <<1, 2>>

ND(g) == Len(g.dw)
NAll(g) == Len(g.dw) + g.nb
NM(g) == Len(g.mv)
AmpD(s, k, i) == QInt(s.fscale * FD[k][i])
AmpM(s, k, j) == QInt(s.fscale * GMTab[((s.groups[k].gm + k - 2) % 3) + 1][j])
SigD(s, k, i) == QMul(QInt(ED[k][i]), AmpD(s, k, i))
SigM(s, k, j) == QMul(QInt(EM[k][j]), AmpM(s, k, j))
BgD(k, i) == QInt(BD[k][i])
BgM(k, j) == QInt(BM[k][j])
AmpK(s, k, j) == QInt(s.fscale * GK[k][j])
\* the once-per-data-set term as a function of the two normalisation factors (both scale with the amplitude)
Penalty(ik, i) == LET d == QDiv(QSub(QDiv(ik, i), PenValue), PenSigma) IN QDiv(QMul(d, d), QInt(2))

--------------------------------------------------------------------------
(* DEFINITION                                                               *)
\* weights of data followed by background: "background events enter with weight -w_bkg"
RawW(g) == TLCEval([i \in 1..NAll(g) |-> IF i <= ND(g) THEN g.dw[i] ELSE QNeg(g.wb)])
SumW(g) == QSumF(RawW(g), 1, NAll(g))
SumW2(g) == QSumF([i \in 1..NAll(g) |-> QMul(RawW(g)[i], RawW(g)[i])], 1, NAll(g))
Alpha(g) == QDiv(SumW(g), SumW2(g))
MCW(g) == IF g.mckey THEN g.mv ELSE [j \in 1..NM(g) |-> QOne]
SumV(g) == QSumF(MCW(g), 1, NM(g))
\* I = sum_j v_j h(y_j) / sum_j v_j for a density table h
Integral(g, H(_)) == QDiv(QSumF([j \in 1..NM(g) |-> QMul(MCW(g)[j], H(j))], 1, NM(g)), SumV(g))
IntAmp(s, k) == LET g == s.groups[k] AmpJ(j) == AmpM(s, k, j) IN Integral(g, AmpJ)
IntSig(s, k) == LET g == s.groups[k] SigJ(j) == SigM(s, k, j) IN Integral(g, SigJ)
IntBg(s, k) == LET g == s.groups[k] BgJ(j) == BgM(k, j) IN Integral(g, BgJ)
IntK(s, k) == LET g == s.groups[k] KJ(j) == AmpK(s, k, j) IN Integral(g, KJ)
Mix(phi, sg, isg, b, ibg) ==                       \* (1-phi) s/I_s + phi b/I_b
    QAdd(QMul(QSub(QOne, phi), QDiv(sg, isg)), QMul(phi, QDiv(b, ibg)))

DefGroup(s, k) ==
    LET g == s.groups[k]
        w == RawW(g)
        a == Alpha(g)
        n == NAll(g)
    IN IF s.kind \in {"default", "simple"} THEN
           VScale(QNeg(a), VSub(VSumF([i \in 1..n |-> VScale(w[i], VLn(AmpD(s, k, i)))], 1, n),
                                VScale(SumW(g), VLn(IntAmp(s, k)))))
       ELSE IF s.kind = "simple_pen" THEN
           VAdd(VScale(QNeg(a), VSub(VSumF([i \in 1..n |-> VScale(w[i], VLn(AmpD(s, k, i)))], 1, n),
                                     VScale(SumW(g), VLn(IntAmp(s, k))))),
                VQ(Penalty(IntK(s, k), IntAmp(s, k))))
       ELSE IF s.kind = "extended" THEN
           VScale(QNeg(a), VSub(VSumF([i \in 1..n |-> VScale(w[i], VLn(AmpD(s, k, i)))], 1, n),
                                VQ(QMul(SumW(g), IntAmp(s, k)))))
       ELSE
           LET isg == IntSig(s, k)
               ibg == IntBg(s, k)
               mixt == VNeg(VSumF([i \in 1..n |->
                          VScale(QMul(a, w[i]), VLn(Mix(g.phi, SigD(s, k, i), isg, BgD(k, i), ibg)))], 1, n))
               nexp == QDiv(isg, QSub(QOne, g.phi))
           IN IF s.kind = "cfit_ext"
              THEN VAdd(mixt, VAdd(VScale(QNeg(QMul(a, SumW(g))), VLn(nexp)), VQ(nexp)))
              ELSE mixt

ConstrTerm(cs) ==
    QSumF([c \in 1..Len(cs) |->
             LET d == QSub(cs[c].th, cs[c].mu)
             IN QDiv(QMul(d, d), QMul(QInt(2), QMul(cs[c].sg, cs[c].sg)))], 1, Len(cs))

\* the definition does not look at s.batch or s.path: batch independence of
\* the algorithm is the corollary  AlgEqDef  for all batch sizes
Def(s) == VAdd(VSumF([k \in 1..NGroups |-> DefGroup(s, k)], 1, NGroups), VQ(ConstrTerm(s.constr)))

\* side conditions: alpha defined and non-zero, MC normalisation defined,
\* every argument of a logarithm positive (clip_log is then the identity)
AdmissibleGroup(s, k) ==
    LET g == s.groups[k] IN
    /\ SumW2(g)[1] # 0 /\ SumW(g)[1] # 0 /\ SumV(g)[1] # 0
    /\ IF s.kind \in CfitKinds
       THEN /\ QPos(IntSig(s, k)) /\ QPos(IntBg(s, k))
            /\ \A i \in 1..NAll(g) : QPos(Mix(g.phi, SigD(s, k, i), IntSig(s, k), BgD(k, i), IntBg(s, k)))
       ELSE QPos(IntAmp(s, k))

--------------------------------------------------------------------------
(* the scenario space                                                       *)
CanonW == CHOOSE x \in BkgSet : TRUE
CanonPhi == CHOOSE x \in PhiSet : TRUE
DWSet == UNION {[1..n -> WSet] : n \in 1..MaxData}
GroupSetD(kind, DW) ==
    {g \in [dw : DW,
            nb : 0..(IF kind \in CfitKinds THEN 0 ELSE MaxBg),    \* config_loader.get_fcn passes no bg sample to cfit
            bgkey : BOOLEAN,       \* TRUE: the bg sample carries its own "weight" (= -w_bkg, as the loader writes it)
            wb : BkgSet,
            mv : UNION {[1..n -> VSet] : n \in 1..MaxMC},
            mckey : BOOLEAN,       \* FALSE: the MC sample has no "weight" entry
            gm : GMChoices,
            phi : PhiSet] :
        /\ (g.nb = 0 => ~g.bgkey /\ g.wb = CanonW)
        /\ (~g.mckey => \A j \in 1..Len(g.mv) : g.mv[j] = CHOOSE x \in VSet : TRUE)
        /\ (kind \notin CfitKinds => g.phi = CanonPhi)}
GroupSet(kind) == GroupSetD(kind, DWSet)

MaxN(gs) == LET S == {Len(gs[k].dw) + gs[k].nb : k \in 1..NGroups} \cup {Len(gs[k].mv) : k \in 1..NGroups}
            IN CHOOSE m \in S : \A x \in S : x <= m
NBatches(n, b) == (n + b - 1) \div b
Ragged(n, b) == NBatches(n, b) > 1 /\ n % b # 0
Affected(s) ==      \* scenarios on which the transcribed code variants differ from the repaired ones
    \/ /\ s.kind = "cfit_ext" /\ s.path = "grad" /\ RaggedSw = "pack"
       /\ \E k \in 1..NGroups : Ragged(NAll(s.groups[k]), s.batch)
    \/ /\ s.kind = "cfit_cached" /\ s.path = "grad" /\ CachedEff = "noeff"
NTot(gs) == LET F == [k \in 1..NGroups |-> <<Len(gs[k].dw) + gs[k].nb, 1>>] IN QSumF(F, 1, NGroups)[1]   \* all data + bg events
CheapValid(s) ==
    \* the mixed likelihood (path "mix") batches the merged sample of all data sets; it exists for the models that
    \* offer sum_nll_grad_bacth / sum_log_integral_grad_batch with this meaning: default and extended
    /\ (s.path = "mix" => s.kind \in {"default", "extended"})
    /\ s.batch <= (IF s.path = "mix" THEN NTot(s.groups) ELSE MaxN(s.groups)) + 1
    /\ (s.path = "value" => s.batch = MaxN(s.groups) + 1)       \* the value path is not batched
    /\ (OnlyDefects <=> Affected(s))
ValidScn(s) == CheapValid(s) /\ \A k \in 1..NGroups : AdmissibleGroup(s, k)
MkScn(kd, gs, b, cs, pa, fs) == [kind |-> kd, groups |-> gs, batch |-> b, constr |-> cs, path |-> pa, fscale |-> fs]
\* the scenarios without batch size and path, as a set (only evaluated by Post
\* of the small configurations; the dummy parameter keeps TLC from evaluating
\* it eagerly at start-up)
CoresX(dummy) ==
    UNION {{[kind |-> kd, groups |-> gs, constr |-> cs, fscale |-> fs] :
              gs \in {x \in [1..NGroups -> GroupSet(kd)] :
                        \A k \in 1..NGroups : \A fs \in Scales :
                            AdmissibleGroup(MkScn(kd, x, 1, <<>>, "grad", fs), k)},
              cs \in ConstrSet, fs \in Scales} : kd \in Kinds}

--------------------------------------------------------------------------
(* ALGORITHM                                                                *)
Grp == scn.groups[gi]
N == NAll(Grp)
LoB(k, b) == (k - 1) * b + 1                            \* _data_split: range(0, n, batch): k-th batch of size b
HiB(k, b, n) == IF k * b < n THEN k * b ELSE n
Lo(k) == LoB(k, scn.batch)
Hi(k, n) == HiB(k, scn.batch, n)
McFirst == scn.kind \in CfitKinds \cup {"simple", "simple_pen"}       \* cfit.py:107, custom.py:125: integrals first

\* Initial states are *seeds* (kind, path, constraints, scale, data weights of
\* the first data set); the action Setup completes a seed to every scenario it
\* admits.  (Only so that TLC's workers share the enumeration; a seed is not a
\* state of the algorithm.)  One "start" state per scenario.
Init ==
    /\ \E kd \in Kinds : \E dw \in DWSet : \E fs \in Scales : \E pa \in Paths : \E cs \in ConstrSet :
         scn = [kind |-> kd, dw |-> dw, fscale |-> fs, path |-> pa, constr |-> cs]
    /\ pc = "seed" /\ gi = 1 /\ wts = <<>> /\ mcw = <<>> /\ bk = 1
    /\ acc = VZero /\ sw = QZero /\ im = QZero /\ ib = QZero /\ tot = VZero /\ trail = <<>>

Setup ==
    /\ pc = "seed"
    /\ \E g1 \in GroupSetD(scn.kind, {scn.dw}) :
       \E rest \in [2..NGroups -> GroupSet(scn.kind)] :
         LET gs == [k \in 1..NGroups |-> IF k = 1 THEN g1 ELSE rest[k]] IN
         /\ \A k \in 1..NGroups : AdmissibleGroup(MkScn(scn.kind, gs, 1, <<>>, "grad", scn.fscale), k)
         /\ \E b \in 1..(NTot(gs) + MaxMC + 1) :
               /\ CheapValid(MkScn(scn.kind, gs, b, scn.constr, scn.path, scn.fscale))
               /\ scn' = MkScn(scn.kind, gs, b, scn.constr, scn.path, scn.fscale)
    /\ pc' = IF scn.path = "mix" THEN "mix_start" ELSE "start"
    /\ UNCHANGED <<gi, wts, mcw, bk, acc, sw, im, ib, tot, trail>>

\* Model.get_weight_data (model.py:603): weight of data (default 1.0), concat
\* with the bg weight (bg["weight"] if present, else -self.w_bkg), times alpha
Blend ==
    /\ pc = "start"
    /\ LET g == Grp
           modelwbkg == IF g.bgkey THEN QInt(1) ELSE g.wb      \* Model.w_bkg; must not enter when the bg carries weights
           bgw == IF g.bgkey THEN QNeg(g.wb) ELSE QNeg(modelwbkg)
           raw == TLCEval([i \in 1..NAll(g) |-> IF i <= ND(g) THEN g.dw[i] ELSE bgw])
           s1 == QSumF(raw, 1, NAll(g))
           s2 == QSumF([i \in 1..NAll(g) |-> QMul(raw[i], raw[i])], 1, NAll(g))
           a == QDiv(s1, s2)
       IN wts' = TLCEval([i \in 1..NAll(g) |-> QMul(a, raw[i])])
    /\ pc' = "blended"
    /\ UNCHANGED <<scn, gi, mcw, bk, acc, sw, im, ib, tot, trail>>

\* FCN.__init__ (model.py:1147-1162): batches, normalised MC weights
PreBatch ==
    /\ pc = "blended"
    /\ LET g == Grp IN
       mcw' = IF g.mckey
              THEN LET sv == QSumF(g.mv, 1, NM(g)) IN TLCEval([j \in 1..NM(g) |-> QDiv(g.mv[j], sv)])
              ELSE TLCEval([j \in 1..NM(g) |-> QDiv(QOne, QInt(NM(g)))])
    /\ pc' = IF scn.path = "value" THEN "value" ELSE IF McFirst THEN "mc" ELSE "data"
    /\ bk' = 1
    /\ UNCHANGED <<scn, gi, wts, acc, sw, im, ib, tot, trail>>

\* one iteration of the loop in sum_gradient over the data batches
\* (model.py:83-90 with _batch_sum, trans = clip_log); cfit.py:119 with prob();
\* custom.py:134 with eval_nll_part
DataBatch ==
    /\ pc = "data" /\ bk <= NBatches(N, scn.batch)
    /\ LET lo == Lo(bk)
           hi == Hi(bk, N)
           swb == QSumF(wts, lo, hi)
           part ==
             IF scn.kind \in {"default", "extended"} THEN
                 VSumF([i \in lo..hi |-> VScale(wts[i], VLn(AmpD(scn, gi, i)))], lo, hi)
             ELSE IF scn.kind = "simple" THEN       \* custom.py:189-192: nll part of the batch, integral known
                 VAdd(VNeg(VSumF([i \in lo..hi |-> VScale(wts[i], VLn(AmpD(scn, gi, i)))], lo, hi)),
                      VScale(swb, VLn(im)))
             ELSE IF scn.kind = "simple_pen" THEN   \* custom.py:257-268: as simple, plus the penalty `if idx == 0`
                 VAdd(VAdd(VNeg(VSumF([i \in lo..hi |-> VScale(wts[i], VLn(AmpD(scn, gi, i)))], lo, hi)),
                           VScale(swb, VLn(im))),
                      IF bk = 1 THEN VQ(Penalty(ib, im)) ELSE VZero)       \* bk = idx + 1 (custom.py:134 enumerate)
             ELSE                                   \* cfit: w ln prob(x; v_int_sig, v_int_bg)
                 VSumF([i \in lo..hi |->
                     VScale(wts[i], VLn(Mix(Grp.phi, SigD(scn, gi, i), im, BgD(gi, i), ib)))], lo, hi)
       IN /\ acc' = VAdd(acc, part)
          /\ sw' = QAdd(sw, swb)
          /\ trail' = Append(trail, <<"d", lo, hi>>)
    /\ bk' = bk + 1
    /\ UNCHANGED <<scn, pc, gi, wts, mcw, im, ib, tot>>

DataDone ==
    /\ pc = "data" /\ bk > NBatches(N, scn.batch)
    /\ pc' = IF McFirst THEN "combine" ELSE "mc"
    /\ bk' = 1
    /\ UNCHANGED <<scn, gi, wts, mcw, acc, sw, im, ib, tot, trail>>

\* one iteration of the loop over the MC batches (model.py:433-438; cfit.py:107-108;
\* cfit.py:239-247 for the cached variant; custom.py:125-131)
MCBatch ==
    /\ pc = "mc" /\ bk <= NBatches(NM(Grp), scn.batch)
    /\ LET lo == Lo(bk)
           hi == Hi(bk, NM(Grp))
           dens(j) == IF scn.kind \in {"cfit", "cfit_ext"} THEN SigM(scn, gi, j)
                      ELSE IF scn.kind = "cfit_cached"
                      THEN (IF CachedEff = "noeff" THEN AmpM(scn, gi, j) ELSE SigM(scn, gi, j))
                      ELSE AmpM(scn, gi, j)
       IN /\ im' = QAdd(im, QSumF([j \in lo..hi |-> QMul(mcw[j], dens(j))], lo, hi))
          /\ ib' = IF scn.kind \in CfitKinds
                   THEN QAdd(ib, QSumF([j \in lo..hi |-> QMul(mcw[j], BgM(gi, j))], lo, hi))
                   ELSE IF scn.kind = "simple_pen"      \* second normalisation factor of eval_normal_factors (custom.py:243-255)
                   THEN QAdd(ib, QSumF([j \in lo..hi |-> QMul(mcw[j], AmpK(scn, gi, j))], lo, hi))
                   ELSE ib
          /\ trail' = Append(trail, <<"m", lo, hi>>)
    /\ bk' = bk + 1
    /\ UNCHANGED <<scn, pc, gi, wts, mcw, acc, sw, tot>>

MCDone ==
    /\ pc = "mc" /\ bk > NBatches(NM(Grp), scn.batch)
    /\ pc' = IF McFirst THEN "data" ELSE "combine"
    /\ bk' = 1
    /\ UNCHANGED <<scn, gi, wts, mcw, acc, sw, im, ib, tot, trail>>

\* the combination at the end of nll_grad_batch
Combine ==
    /\ pc = "combine"
    /\ LET raises == /\ scn.kind = "cfit_ext" /\ RaggedSw = "pack"     \* cfit.py:359: tf.reduce_sum(list of batches)
                     /\ Ragged(N, scn.batch)
           val ==
             IF scn.kind = "default" THEN VAdd(VNeg(acc), VScale(sw, VLn(im)))          \* model.py:448, int_f = log
             ELSE IF scn.kind = "extended" THEN VAdd(VNeg(acc), VQ(QMul(sw, im)))       \* int_f = identity
             ELSE IF scn.kind \in {"simple", "simple_pen"} THEN acc
             ELSE IF scn.kind = "cfit_ext" THEN                                         \* cfit.py:378-382
                 LET nexp == QDiv(im, QSub(QOne, Grp.phi))
                 IN VAdd(VNeg(acc), VAdd(VScale(QNeg(sw), VLn(nexp)), VQ(nexp)))
             ELSE VNeg(acc)
       IN IF raises
          THEN /\ pc' = "raised" /\ tot' = tot
          ELSE /\ tot' = VAdd(tot, val) /\ pc' = "group_done"
    /\ UNCHANGED <<scn, gi, wts, mcw, bk, acc, sw, im, ib, trail>>

\* FCN.__call__ -> get_nll -> Model.nll (model.py:678): get_weight_data once
\* more on the already blended weights (bg = None), alpha applied again
ReBlend ==
    /\ pc = "value"
    /\ IF scn.kind \in {"simple", "simple_pen"}   \* BaseCustomModel.nll does not blend again
       THEN wts' = wts
       ELSE LET s1 == QSumF(wts, 1, N)
                s2 == QSumF([i \in 1..N |-> QMul(wts[i], wts[i])], 1, N)
            IN wts' = TLCEval([i \in 1..N |-> QMul(QDiv(s1, s2), wts[i])])
    /\ pc' = "value2"
    /\ UNCHANGED <<scn, gi, mcw, bk, acc, sw, im, ib, tot, trail>>

\* BaseModel.nll (model.py:322-339), Model_cfit.nll (cfit.py:71-87),
\* ModelCfitExtended.nll (cfit.py:321-341), BaseCustomModel.nll (custom.py:42-44)
ValueEval ==
    /\ pc = "value2"
    /\ LET s1 == QSumF(wts, 1, N)
           s2 == QSumF([i \in 1..N |-> QMul(wts[i], wts[i])], 1, N)
           nm == NM(Grp)
           smc == QSumF(mcw, 1, nm)
           lnd == VSumF([i \in 1..N |-> VScale(wts[i], VLn(AmpD(scn, gi, i)))], 1, N)
           iamp == QSumF([j \in 1..nm |-> QMul(mcw[j], AmpM(scn, gi, j))], 1, nm)
           isg == QSumF([j \in 1..nm |-> QMul(mcw[j], SigM(scn, gi, j))], 1, nm)
           ibg == QSumF([j \in 1..nm |-> QMul(mcw[j], BgM(gi, j))], 1, nm)
           a3 == QDiv(s1, s2)                              \* model.py:336
           mixt == VNeg(VSumF([i \in 1..N |->
                       VScale(wts[i], VLn(Mix(Grp.phi, SigD(scn, gi, i), isg, BgD(gi, i), ibg)))], 1, N))
           nexp == QDiv(isg, QSub(QOne, Grp.phi))
           val ==
             IF scn.kind = "default" THEN VScale(QNeg(a3), VSub(lnd, VScale(s1, VLn(QDiv(iamp, smc)))))
             ELSE IF scn.kind = "extended" THEN VScale(QNeg(a3), VSub(lnd, VQ(QMul(s1, QDiv(iamp, smc)))))
             ELSE IF scn.kind = "simple" THEN VAdd(VNeg(lnd), VScale(s1, VLn(iamp)))
             ELSE IF scn.kind = "simple_pen" THEN        \* custom.py:42-44: eval_nll_part(data, weight, int_mc, idx=0)
                 VAdd(VAdd(VNeg(lnd), VScale(s1, VLn(iamp))),
                      VQ(Penalty(QSumF([j \in 1..nm |-> QMul(mcw[j], AmpK(scn, gi, j))], 1, nm), iamp)))
             ELSE IF scn.kind = "cfit_ext" THEN VAdd(mixt, VAdd(VScale(QNeg(s1), VLn(nexp)), VQ(nexp)))
             ELSE mixt
       IN tot' = VAdd(tot, val)
    /\ pc' = "group_done"
    /\ trail' = Append(Append(trail, <<"d", 1, N>>), <<"m", 1, NM(Grp)>>)
    /\ UNCHANGED <<scn, gi, wts, mcw, bk, acc, sw, im, ib>>

\* CombineFCN.get_nll / get_nll_grad (model.py:1329-1371): next data set
NextGroup ==
    /\ pc = "group_done" /\ gi < NGroups
    /\ gi' = gi + 1 /\ pc' = "start"
    /\ wts' = <<>> /\ mcw' = <<>> /\ bk' = 1 /\ acc' = VZero /\ sw' = QZero /\ im' = QZero /\ ib' = QZero
    /\ trail' = <<>>
    /\ UNCHANGED <<scn, tot>>

--------------------------------------------------------------------------
(* MixLogLikehoodFCN (model.py, `data: {using_mix_likelihood: True}`): the    *)
(* gradient path nll_grad -> get_nll_grad is structurally different from      *)
(* CombineFCN: ONE sum over the merged, blended samples of all data sets      *)
(* (batches may straddle data sets), then per data set n_k * int_f(I_k) with  *)
(* n_k = sum of the blended weights of data set k and the normalised MC       *)
(* weights.  (Its __call__ / Hessian / Hessian-vector paths are CombineFCN's  *)
(* over the inner FCN objects: paths "value" / "grad" above.)                 *)
Offset(k) == LET F == [j \in 1..NGroups |-> <<IF j < k THEN NAll(scn.groups[j]) ELSE 0, 1>>] IN QSumF(F, 1, NGroups)[1]
GroupOfEv(e) == CHOOSE k \in 1..NGroups : Offset(k) < e /\ e <= Offset(k) + NAll(scn.groups[k])
NMerged == NTot(scn.groups)
BlendedW(g) ==          \* Model.mix_data_bakcground = get_weight_data(data, data.get_weight(), bg, alpha=True)
    LET modelwbkg == IF g.bgkey THEN QInt(1) ELSE g.wb
        bgw == IF g.bgkey THEN QNeg(g.wb) ELSE QNeg(modelwbkg)
        raw == TLCEval([i \in 1..NAll(g) |-> IF i <= ND(g) THEN g.dw[i] ELSE bgw])
        s1 == QSumF(raw, 1, NAll(g))
        s2 == QSumF([i \in 1..NAll(g) |-> QMul(raw[i], raw[i])], 1, NAll(g))
    IN TLCEval([i \in 1..NAll(g) |-> QMul(QDiv(s1, s2), raw[i])])
\* __init__: blend every data set, merge (data_merge(*self.datas)), pre-batch
MixBlend ==
    /\ pc = "mix_start"
    /\ wts' = TLCEval([e \in 1..NMerged |-> BlendedW(scn.groups[GroupOfEv(e)])[e - Offset(GroupOfEv(e))]])
    /\ pc' = "mix_data" /\ bk' = 1
    /\ UNCHANGED <<scn, gi, mcw, acc, sw, im, ib, tot, trail>>
\* sum_nll_grad_bacth(self.data_merge): sum_gradient with trans = clip_log over the merged batches
MixDataBatch ==
    /\ pc = "mix_data" /\ bk <= NBatches(NMerged, scn.batch)
    /\ LET lo == Lo(bk)
           hi == Hi(bk, NMerged)
       IN /\ acc' = VAdd(acc, VSumF([e \in lo..hi |->
                        VScale(wts[e], VLn(AmpD(scn, GroupOfEv(e), e - Offset(GroupOfEv(e)))))], lo, hi))
          /\ trail' = Append(trail, <<"D", lo, hi>>)
    /\ bk' = bk + 1
    /\ UNCHANGED <<scn, pc, gi, wts, mcw, sw, im, ib, tot>>
MixDataDone ==
    /\ pc = "mix_data" /\ bk > NBatches(NMerged, scn.batch)
    /\ tot' = VNeg(acc)                                  \* -ln_data
    /\ pc' = "mix_mcstart" /\ gi' = 1
    /\ UNCHANGED <<scn, wts, mcw, bk, acc, sw, im, ib, trail>>
\* per data set: weight_phsp["weight"] = w / sum(w), split into batches; n_datas[k] = sum of the blended weights
MixMCStart ==
    /\ pc = "mix_mcstart"
    /\ LET g == Grp IN
       mcw' = LET w == MCW(g) sv == QSumF(w, 1, NM(g)) IN TLCEval([j \in 1..NM(g) |-> QDiv(w[j], sv)])
    /\ sw' = QSumF(wts, Offset(gi) + 1, Offset(gi) + N)
    /\ im' = QZero /\ bk' = 1 /\ pc' = "mix_mc"
    /\ trail' = SelectSeq(trail, LAMBDA e : e[1] = "D")
    /\ UNCHANGED <<scn, gi, wts, acc, ib, tot>>
MixMCBatch ==
    /\ pc = "mix_mc" /\ bk <= NBatches(NM(Grp), scn.batch)
    /\ LET lo == Lo(bk)
           hi == Hi(bk, NM(Grp))
       IN /\ im' = QAdd(im, QSumF([j \in lo..hi |-> QMul(mcw[j], AmpM(scn, gi, j))], lo, hi))
          /\ trail' = Append(trail, <<"m", lo, hi>>)
    /\ bk' = bk + 1
    /\ UNCHANGED <<scn, pc, gi, wts, mcw, acc, sw, ib, tot>>
\* sum_log_integral_grad_batch(k, l): self.int_f(int_mc) * ndata
MixMCDone ==
    /\ pc = "mix_mc" /\ bk > NBatches(NM(Grp), scn.batch)
    /\ tot' = VAdd(tot, IF scn.kind = "extended" THEN VQ(QMul(sw, im)) ELSE VScale(sw, VLn(im)))
    /\ IF gi < NGroups THEN gi' = gi + 1 /\ pc' = "mix_mcstart" ELSE gi' = gi /\ pc' = "group_done"
    /\ UNCHANGED <<scn, wts, mcw, bk, acc, sw, im, ib, trail>>
MixNext == MixBlend \/ MixDataBatch \/ MixDataDone \/ MixMCStart \/ MixMCBatch \/ MixMCDone

\* FCN.__call__ / nll_grad, CombineFCN.__call__ / nll_grad (inherited by MixLogLikehoodFCN): + constraint term, once
Finish ==
    /\ pc = "group_done" /\ gi = NGroups
    /\ tot' = VAdd(tot, VQ(ConstrTerm(scn.constr)))
    /\ pc' = "done"
    /\ UNCHANGED <<scn, gi, wts, mcw, bk, acc, sw, im, ib, trail>>

Next == Setup \/ Blend \/ PreBatch \/ DataBatch \/ DataDone \/ MCBatch \/ MCDone \/ Combine
        \/ ReBlend \/ ValueEval \/ NextGroup \/ Finish \/ MixNext
Spec == Init /\ [][Next]_vars

--------------------------------------------------------------------------
(* THEOREMS (checked as invariants)                                         *)
\* algorithm = definition, for every batch size (hence batch independence),
\* both observation paths, every grouping
AlgEqDef == pc = "done" => tot = Def(scn)
NoRaise == pc # "raised"
\* the blended weights are the alpha-scaled weights of the definition, and
\* blending them again changes nothing (alpha of alpha-scaled weights is 1)
BlendOK == pc \in {"blended", "value2"} =>
             wts = [i \in 1..N |-> QMul(Alpha(Grp), RawW(Grp)[i])]
MCNormalised == pc \in {"data", "mc", "value"} /\ bk = 1 => QSumF(mcw, 1, NM(Grp)) = QOne
\* the batches partition each sample in order, every event exactly once
RECURSIVE Covers(_, _, _)
Covers(tr, tag, n) ==      \* the entries with this tag are <<1,h1>>, <<h1+1,h2>>, ..., <<.., n>>
    LET sel == SelectSeq(tr, LAMBDA e : e[1] = tag)
    IN /\ Len(sel) >= 1
       /\ sel[1][2] = 1 /\ sel[Len(sel)][3] = n
       /\ \A x \in 1..(Len(sel) - 1) : sel[x + 1][2] = sel[x][3] + 1 /\ sel[x][2] <= sel[x][3]
Partition == pc = "group_done" =>
    IF scn.path = "mix" THEN Covers(trail, "D", NMerged) /\ Covers(trail, "m", NM(Grp))
    ELSE Covers(trail, "d", N) /\ Covers(trail, "m", NM(Grp))
\* the mixed likelihood: n_k is alpha_k * sum of the raw weights of data set k, the MC weights are normalised
MixWeights == pc = "mix_mc" => sw = QMul(Alpha(Grp), SumW(Grp)) /\ QSumF(mcw, 1, NM(Grp)) = QOne
\* invariance of the definition under a common rescaling of all amplitudes
\* when not extended; the extended value does change (non-vacuity of the rule)
ScaleInvariant ==
    pc = "start" /\ gi = 1 =>
       \A lam \in {2, 3} :
          LET t == [scn EXCEPT !.fscale = lam * scn.fscale] IN
          IF scn.kind \in ExtKinds THEN Def(t) # Def(scn) ELSE Def(t) = Def(scn)
\* a simultaneous fit is the sum of its parts (constraints once)
SumOfParts == pc = "done" =>
    tot = VAdd(VSumF([k \in 1..NGroups |-> DefGroup(scn, k)], 1, NGroups), VQ(ConstrTerm(scn.constr)))
TypeOK == /\ pc \in {"mix_start", "mix_data", "mix_mcstart", "mix_mc", "seed", "start", "blended", "data", "mc", "combine", "value", "value2", "group_done", "done", "raised"}
          /\ gi \in 1..NGroups /\ bk \in 1..(NGroups * (MaxData + MaxBg) + MaxMC + 2)

--------------------------------------------------------------------------
(* output for the harness: the scenario table with the exact value of the   *)
(* definition (used to validate the numpy transliteration of Def) and the   *)
(* density tables                                                           *)
LgOut(l) == {<<p, l[p][1], l[p][2]>> : p \in DOMAIN l}
Post ==
    /\ TLCGet("stats").diameter >= 0
    /\ LET crs == IF EmitMax > 0 THEN CoresX(0) ELSE {}
       IN JsonSerialize(IOEnv.OUT_FILE,
            [ncores |-> Cardinality(crs),
             tables |-> [FD |-> FD, GM |-> GMTab, ED |-> ED, EM |-> EM, BD |-> BD, BM |-> BM, GK |-> GK, pen |-> <<PenValue, PenSigma>>],
             \* the batches of a sample of n events for batch size b (what Partition is about), for the
             \* comparison with the batches the code actually processes
             parts |-> {<<n, b, [k \in 1..NBatches(n, b) |-> HiB(k, b, n) - LoB(k, b) + 1]>> :
                           n \in 1..(MaxData + MaxBg + MaxMC), b \in 1..(MaxData + MaxBg + MaxMC + 1)},
             cores |-> IF Cardinality(crs) <= EmitMax
                       THEN {[core |-> c, maxn |-> MaxN(c.groups), q |-> Def(c).q, lg |-> LgOut(Def(c).lg)] : c \in crs}
                       ELSE {}])
==========================================================================
