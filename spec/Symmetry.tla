--------------------------- MODULE Symmetry ---------------------------
(* Discrete quantifier domains of the two invariance properties            *)
(*   C01  density independent of the observer's frame                      *)
(*   C02  density independent of bookkeeping conventions                   *)
(* (tf_pwa/cal_angle.py, angle.py, dfun.py, amp/core.py, config_loader).   *)
(*                                                                          *)
(* Both properties are identities over continuous inputs (events, group    *)
(* elements); TLC cannot evaluate either side.  What this module decides:  *)
(*  (a) the set of DECAY STRUCTURES (topologies from Topology.CF(n), spin/ *)
(*      parity assignments, parity-violating vertices, identical-particle  *)
(*      declarations) with the selection rule of LSCoupling as validity    *)
(*      condition (a chain with an empty (l,s) list is removed by tf-pwa); *)
(*  (b) C01: the monoid of TRANSFORMATION WORDS with the applicability     *)
(*      conditions of the property as enabling conditions (Invert only for *)
(*      n = 3 or all vertices parity conserving; Exchange only for         *)
(*      declared identical particles), as a step machine whose states are  *)
(*      (structure, word); invariant: the accumulated discrete shadow of   *)
(*      the word (determinant, leaf permutation) is a symmetry of the      *)
(*      structure;                                                          *)
(*  (c) C02: the machine of BOOKKEEPING CHANGES (adjacent transposition of *)
(*      the chain list, toggles of align_ref / random_z / center_mass /    *)
(*      only_left_angle), the ADMISSIBILITY table, and the reference rule  *)
(*      Ref(order, leaf) of aligned_angle_ref_rule1, with the theorem that *)
(*      the rule depends on the order exactly for the structures flagged   *)
(*      alignment-sensitive (non-vacuity of the comparison).               *)
(* The harness replays every enumerated scenario on the real code with     *)
(* sampled events / group elements (checks c01.py, c02.py).                *)
EXTENDS Integers, Sequences, FiniteSets, TLC, Json, IOUtils, FiniteSetsExt, SequencesExt

CONSTANTS MaxJ2,        \* largest doubled spin of top / resonances
          MaxFinJ2,     \* largest doubled spin of a final-state particle
          FinBudget3,   \* bound on the sum of doubled final spins, n = 3
          FinBudget4,   \*                                          n = 4
          NSet,         \* numbers of final-state particles enumerated
          MaxWord,      \* longest transformation word
          Thin, Offset, \* deterministic thinning of the parameter product
          Reps3, Reps4, \* replicas of every free tuple (n = 3, n = 4)
          NModels       \* number of resonance-model tags (assigned by rule)

VARIABLES st,           \* the decay structure (constant along a behaviour)
          word, det, perm,      \* C01 machine: word and its discrete shadow
          order, opt, frame     \* C02 machine: chain order, options, event frame
vars == <<st, word, det, perm, order, opt, frame>>

\* operators of the two base modules are used, not copied
Topo == INSTANCE Topology WITH N <- 5, NameN <- 0, LawN <- 0,
                               edges <- {}, nxt <- 0, cnt <- 0, canon <- {}
LS == INSTANCE LSCoupling WITH cfg <- 0

--------------------------------------------------------------------------
(* trees                                                                    *)
Full(n) == 1..n
Forms(n) == Topo!CF(n)
Forms3 == Forms(3)
Forms4 == Forms(4)
FormsOf(n) == IF n = 3 THEN Forms3 ELSE Forms4
\* Topology.Kids with the number of leaves as a parameter
SubG(n, c, T) == {S \in c \cup Topo!Singles(n) : S \subseteq T /\ S # T}
Kids(n, c, T) == {S \in SubG(n, c, T) : ~\E S2 \in SubG(n, c, T) : S \subseteq S2 /\ S # S2}
MinOf(S) == CHOOSE x \in S : \A y \in S : x <= y
FirstKid(n, c, T) == CHOOSE K \in Kids(n, c, T) : MinOf(T) \in K
SecondKid(n, c, T) == CHOOSE K \in Kids(n, c, T) : MinOf(T) \notin K

\* representatives modulo relabelling of the leaves (final spins are NOT sorted,
\* so fixing the first chain's form loses nothing)
Rep3 == {{1, 2}, {1, 2, 3}}
RepCascade4 == {{1, 2}, {1, 2, 3}, {1, 2, 3, 4}}
RepSplit4 == {{1, 2}, {3, 4}, {1, 2, 3, 4}}
Reps(n) == IF n = 3 THEN {Rep3} ELSE {RepCascade4, RepSplit4}
ChainSets(n) ==
    {<<r>> : r \in Reps(n)} \cup {<<r, f>> : r \in Reps(n), f \in FormsOf(n)}
    \cup (IF n = 3 THEN {<<Rep3, {{1, 3}, {1, 2, 3}}, {{2, 3}, {1, 2, 3}}>>} ELSE {})
ChainSetSeq3 == SetToSeq(ChainSets(3))
ChainSetSeq4 == SetToSeq(ChainSets(4))
ChainSetSeq(n) == IF n = 3 THEN ChainSetSeq3 ELSE ChainSetSeq4

--------------------------------------------------------------------------
(* quantum numbers                                                          *)
FinPar(j2) == IF j2 % 2 = 0 THEN -1 ELSE 1          \* convention for finals
Budget(n) == IF n = 3 THEN FinBudget3 ELSE FinBudget4
SumAll(f, n) == f[1] + f[2] + f[3] + (IF n = 4 THEN f[4] ELSE 0)
OddOver(f, S) == Cardinality({l \in S : f[l] % 2 = 1}) % 2       \* fermion number of a leaf set
FinVectors(n) == {f \in [1..n -> 0..MaxFinJ2] : SumAll(f, n) <= Budget(n)}
CapJ2(x) == IF x <= MaxJ2 THEN x ELSE IF (x - MaxJ2) % 2 = 0 THEN MaxJ2 ELSE MaxJ2 - 1
\* resonance spin: fermion number of its leaves + level of its chain, shifted by size
ResJ2(fin, S, lev) == CapJ2(OddOver(fin, S) + 2 * ((lev + Cardinality(S) - 2) % 3))
PBQSeq == << <<"none", 1>>, <<"none", -1>>, <<"top", 1>>, <<"all", 1>> >>
\* identical-particle declarations: a set of disjoint GROUPS of leaves (tf-pwa's
\* data.identical_particles is a list of lists): none, one pair, one group of three,
\* and for n = 4 two pairs (the symmetrisation then runs over the PRODUCT of the groups'
\* permutations: exchanging one pair only, the other only, and both)
IdentSeq(n) == IF n = 3 THEN << {}, {{1, 2}}, {{2, 3}}, {{1, 2, 3}} >>
               ELSE << {}, {{1, 2}}, {{2, 3}}, {{1, 2}, {3, 4}}, {{1, 3}, {2, 4}}, {{1, 2, 3}} >>

\* The full product (final spins x top spin x parity pattern x resonance levels x
\* identical pairs x chain sets) has several 10^5 members.  The enumerated family
\* takes the final spins, the chain set, the identical-pair declaration and a
\* replica index as FREE dimensions (complete product) and derives the remaining
\* ones (top spin, p_break pattern / top parity, resonance parity, one spin level
\* per chain, resonance-model tag) from a 32-bit-safe polynomial hash of the free
\* ones and of Offset, so that they vary quasi-independently; Thin keeps every
\* Thin-th tuple.  Other values of Offset give other slices of the full product.
Free(n) ==
    {p \in [fin : FinVectors(n), ii : 1..Len(IdentSeq(n)), rep : 1..(IF n = 3 THEN Reps3 ELSE Reps4)] :
        \A pr \in IdentSeq(n)[p.ii] : \A i, j \in pr : p.fin[i] = p.fin[j]}
Mix(h, x) == (h * 31 + x + 7) % 1000003
Hash(n, ci, p) ==
    LET h1 == Mix(Mix(Mix(Mix(17, Offset % 100000), n), ci), p.ii - 1)
        h2 == Mix(Mix(Mix(Mix(h1, p.fin[1]), p.fin[2]), p.fin[3]), IF n = 4 THEN p.fin[4] ELSE 5)
    IN Mix(Mix(h2, p.rep), 11)
Digit(h, base, div) == (h \div div) % base
TopSeq(par) == SetToSortSeq({j \in 0..MaxJ2 : j % 2 = par}, LAMBDA a, b : a < b)
Keep(n, ci, p) == (Mix(Mix(Hash(n, ci, p), 3), 5) % Thin) = 0

Expand(n, ci, p) ==
    LET h == Hash(n, ci, p)
        cs == ChainSetSeq(n)[ci]
        tops == TopSeq(SumAll(p.fin, n) % 2)                   \* fermion number
        pbq == PBQSeq[Digit(h, 4, 3) + 1]
        q == IF Digit(h, 2, 12) = 0 THEN 1 ELSE -1
        lev == [k \in 1..3 |-> Digit(h, 3, IF k = 1 THEN 24 ELSE IF k = 2 THEN 72 ELSE 216)]
    IN [n |-> n,
        top |-> <<tops[(h % Len(tops)) + 1], pbq[2]>>,
        fin |-> [i \in 1..n |-> <<p.fin[i], FinPar(p.fin[i])>>],
        chains |-> [k \in 1..Len(cs) |->
                     [form |-> cs[k],
                      res |-> {<<T, ResJ2(p.fin, T, lev[k]), q>> : T \in cs[k] \ {Full(n)}}]],
        pb |-> pbq[1],
        ident |-> IdentSeq(n)[p.ii],
        model |-> Digit(h, NModels, 648)]

Catalogue ==
    UNION {UNION {{Expand(n, ci, p) : p \in {x \in Free(n) : Keep(n, ci, x)}}
                  : ci \in 1..Len(ChainSetSeq(n))} : n \in NSet}

--------------------------------------------------------------------------
(* validity: every vertex has a non-empty (l,s) list                        *)
QN(s, k, S) == IF S = Full(s.n) THEN s.top
               ELSE IF Cardinality(S) = 1 THEN s.fin[MinOf(S)]
               ELSE LET r == CHOOSE x \in s.chains[k].res : x[1] = S IN <<r[2], r[3]>>
Breaks(s, T) == s.pb = "all" \/ (s.pb = "top" /\ T = Full(s.n))
VertexCfg(s, k, T) ==
    LET f == s.chains[k].form
        a == QN(s, k, T)
        b == QN(s, k, FirstKid(s.n, f, T))
        c == QN(s, k, SecondKid(s.n, f, T))
    IN [ja2 |-> a[1], jb2 |-> b[1], jc2 |-> c[1], pa |-> a[2], pb |-> b[2], pc |-> c[2],
        pbreak |-> Breaks(s, T), ca |-> 0]
Vertices(s) == UNION {{<<k, T>> : T \in s.chains[k].form} : k \in 1..Len(s.chains)}
Valid(s) == \A v \in Vertices(s) : LS!Allowed(VertexCfg(s, v[1], v[2])) # {}
FermionConsistent(s) ==
    \A v \in Vertices(s) : LET c == VertexCfg(s, v[1], v[2]) IN (c.ja2 - c.jb2 - c.jc2) % 2 = 0
ConservesParity(s) == \A v \in Vertices(s) : ~Breaks(s, v[2])
SameQN(s, i, j) == s.fin[i] = s.fin[j]

--------------------------------------------------------------------------
(* C01: transformation words                                                *)
RotNames == {"RotX90", "RotZ60", "RotGen"}
BoostNames == {"BoostZ", "BoostGen"}
ParityOK(s) == s.n = 3 \/ ConservesParity(s)
SameGroup(s, i, j) == \E g \in s.ident : {i, j} \subseteq g
SwapOK(s, i, j) == i < j /\ SameGroup(s, i, j)
Enabled(s) ==
    {<<g, 0, 0>> : g \in RotNames \cup BoostNames}
    \cup (IF ParityOK(s) THEN {<<"Parity", 0, 0>>} ELSE {})
    \cup {<<"Swap", x[1], x[2]>> : x \in {y \in (1..s.n) \X (1..s.n) : SwapOK(s, y[1], y[2])}}

Ident(n) == [i \in 1..n |-> i]
NoOpt == [ar |-> "none", rz |-> TRUE, cm |-> FALSE, ol |-> FALSE]     \* the defaults of config_loader/data.py

InitFrame ==
    /\ st \in Catalogue
    /\ word = <<>> /\ det = 1 /\ perm = Ident(st.n)
    /\ order = <<>> /\ opt = NoOpt /\ frame = "rest"

Step(g) ==
    /\ Valid(st)
    /\ Len(word) < MaxWord
    /\ g \in Enabled(st)
    /\ word' = Append(word, g)
    /\ det' = IF g[1] = "Parity" THEN -det ELSE det
    /\ perm' = IF g[1] = "Swap"
               THEN [i \in 1..st.n |-> IF perm[i] = g[2] THEN g[3] ELSE IF perm[i] = g[3] THEN g[2] ELSE perm[i]]
               ELSE perm
    /\ UNCHANGED <<st, order, opt, frame>>
Rotate(g) == g \in RotNames /\ Step(<<g, 0, 0>>)
Boost(g) == g \in BoostNames /\ Step(<<g, 0, 0>>)
Invert == ParityOK(st) /\ Step(<<"Parity", 0, 0>>)
Exchange(i, j) == i < j /\ Step(<<"Swap", i, j>>)
NextFrame ==
    \/ \E g \in RotNames : Rotate(g)
    \/ \E g \in BoostNames : Boost(g)
    \/ Invert
    \/ \E i, j \in 1..4 : Exchange(i, j)

TypeOKFrame ==
    /\ st.n \in NSet /\ Len(st.fin) = st.n /\ Len(st.chains) \in 1..3
    /\ \A k \in 1..Len(st.chains) : st.chains[k].form \in FormsOf(st.n)
    /\ \A g, g2 \in st.ident : g # g2 => g \cap g2 = {}
    /\ Len(word) <= MaxWord /\ det \in {-1, 1}
    /\ \A i \in 1..Len(word) : word[i] \in Enabled(st)
\* theorem of the construction rule
FermionOK == FermionConsistent(st)
\* the enabling table is the property's applicability condition, literally
ParityTable == (<<"Parity", 0, 0>> \in Enabled(st)) <=> (st.n = 3 \/ \A v \in Vertices(st) : ~Breaks(st, v[2]))
SwapTable == \A i, j \in 1..st.n :
    (<<"Swap", i, j>> \in Enabled(st)) => (i # j /\ SameGroup(st, i, j) /\ SameQN(st, i, j))
\* the discrete shadow of every reachable word is a symmetry of the structure
WordSound ==
    /\ det = -1 => ParityOK(st)
    /\ {perm[i] : i \in 1..st.n} = 1..st.n
    /\ \A i \in 1..st.n : perm[i] # i => (SameQN(st, i, perm[i]) /\ \E pr \in st.ident : {i, perm[i]} \subseteq pr)
    /\ word # <<>> => Valid(st)

--------------------------------------------------------------------------
(* C02: bookkeeping conventions                                             *)
Spinning(s) == {l \in 1..s.n : s.fin[l][1] > 0}
FormSet(s) == {s.chains[k].form : k \in 1..Len(s.chains)}
TopLeaves(s, f) == {l \in 1..s.n : {l} \in Kids(s.n, f, Full(s.n))}
\* topology classes in first-occurrence order of the chain list (DecayGroup.topology_structure)
ClassSeq(s, ord) ==
    LET fs == [k \in 1..Len(ord) |-> s.chains[ord[k]].form]
        first == {k \in 1..Len(ord) : \A m \in 1..(k - 1) : fs[m] # fs[k]}
        idx == SetToSortSeq(first, LAMBDA a, b : a < b)
    IN [k \in 1..Len(idx) |-> fs[idx[k]]]
\* aligned_angle_ref_rule1: a top-level producer wins (the first one in class order), else the first class
Ref(s, ord, l) ==
    LET cls == ClassSeq(s, ord)
        prod == {k \in 1..Len(cls) : l \in TopLeaves(s, cls[k])}
    IN IF prod # {} THEN cls[MinOf(prod)] ELSE cls[1]
NProd(s, l) == Cardinality({f \in FormSet(s) : l \in TopLeaves(s, f)})
Orphans(s) == {l \in Spinning(s) : NProd(s, l) = 0}
Multis(s) == {l \in Spinning(s) : NProd(s, l) >= 2}
Sensitive(s) == Cardinality(FormSet(s)) >= 2 /\ (Orphans(s) \cup Multis(s)) # {}
Perms(k) == {f \in [1..k -> 1..k] : {f[i] : i \in 1..k} = 1..k}
RefDiffers(s, ord) == \E l \in Spinning(s) : Ref(s, ord, l) # Ref(s, Ident(Len(s.chains)), l)

\* Ordered trees under the binding's daughter convention (the daughter containing the
\* smallest leaf is listed first in the decay card) and their image under a leaf swap.
\* SwapAligned: for every transposition inside a declared identical group, the helicity reference of every
\* spinning leaf is mapped by the swap onto the reference of the image leaf.  (Probed:
\* where this fails, tf-pwa's symmetrised density is not frame independent -- the
\* swapped configuration refers final helicities to a different chain path.)
OTree(n, f) == {<<T, FirstKid(n, f, T), SecondKid(n, f, T)>> : T \in f}
SwapLeaf(pr, l) == IF l \in pr THEN CHOOSE m \in pr : m # l ELSE l
SwapSet(pr, S) == {SwapLeaf(pr, l) : l \in S}
ImageTree(pr, t) == {<<SwapSet(pr, x[1]), SwapSet(pr, x[2]), SwapSet(pr, x[3])>> : x \in t}
IdentPairs(s) == {pr \in SUBSET (1..s.n) : Cardinality(pr) = 2 /\ \E g \in s.ident : pr \subseteq g}
\* (the reference depends on the chain order, so does the predicate)
SwapAlignedOrd(s, ord) ==
    \A pr \in IdentPairs(s) : \A l \in Spinning(s) :
        ImageTree(pr, OTree(s.n, Ref(s, ord, l))) = OTree(s.n, Ref(s, ord, SwapLeaf(pr, l)))
SwapAligned(s) == SwapAlignedOrd(s, Ident(Len(s.chains)))

\* without identical particles, or without spinning finals, there is nothing to align
SwapAlignedTrivial == (st.ident = {} \/ Spinning(st) = {}) => SwapAligned(st)

Book(s) == Valid(s) /\ Len(s.chains) >= 2 /\ Spinning(s) # {}
Catalogue2 == {s \in Catalogue : Book(s)}

\* admissibility (calibrated by probe, DESIGN C02): align_ref = center_mass takes its
\* reference axes from the momenta as supplied, so it needs events in the parent rest
\* frame or center_mass = TRUE; r_boost = FALSE is outside the property and not an option here
Admissible(o, fr) == o.ar = "cm" => (fr = "rest" \/ o.cm)
\* Expected-verdict table.  With declared identical particles and a spinning final the
\* default reference (rule 1, per chain slot) is only meaningful where the exchange maps
\* it onto itself (known finding C01 identical-particles:helicity-reference-not-swap-
\* symmetric); the parent-rest-frame reference (align_ref = center_mass, rule 2) is
\* exchange symmetric by construction.  A state is JUDGEABLE (its density must equal that
\* of every other judgeable state of the same structure and frame) iff it is admissible and
\* either nothing needs aligning across the exchange, or align_ref = center_mass, or the
\* rule-1 reference under the state's chain order is exchange symmetric.
NeedsAlign(s) == s.ident # {} /\ Spinning(s) # {}
Judgeable(s, ord, o, fr) ==
    Admissible(o, fr) /\ (NeedsAlign(s) => (o.ar = "cm" \/ SwapAlignedOrd(s, ord)))
\* the baseline of the comparisons: declared order and default options where judgeable,
\* else declared order with align_ref = center_mass and center_mass = TRUE
CmOpt == [ar |-> "cm", rz |-> TRUE, cm |-> TRUE, ol |-> FALSE]
BaseOpt(s) == IF NeedsAlign(s) /\ ~SwapAligned(s) THEN CmOpt ELSE NoOpt

InitBook ==
    /\ st \in Catalogue2
    /\ frame \in {"rest", "lab"}
    /\ order = Ident(Len(st.chains)) /\ opt = NoOpt
    /\ word = <<>> /\ det = 1 /\ perm = <<>>
Keep2 == UNCHANGED <<st, frame, word, det, perm>>
SwapChains(i) == /\ i \in 1..(Len(order) - 1)
                 /\ order' = [order EXCEPT ![i] = order[i + 1], ![i + 1] = order[i]]
                 /\ UNCHANGED opt /\ Keep2
ToggleAlignRef == opt' = [opt EXCEPT !.ar = IF @ = "none" THEN "cm" ELSE "none"] /\ UNCHANGED order /\ Keep2
ToggleRandomZ == opt' = [opt EXCEPT !.rz = ~@] /\ UNCHANGED order /\ Keep2
ToggleCenterMass == opt' = [opt EXCEPT !.cm = ~@] /\ UNCHANGED order /\ Keep2
ToggleOnlyLeft == opt' = [opt EXCEPT !.ol = ~@] /\ UNCHANGED order /\ Keep2
NextBook ==
    \/ \E i \in 1..2 : SwapChains(i)
    \/ ToggleAlignRef \/ ToggleRandomZ \/ ToggleCenterMass \/ ToggleOnlyLeft

TypeOKBook ==
    /\ order \in Perms(Len(st.chains))
    /\ opt \in [ar : {"none", "cm"}, rz : BOOLEAN, cm : BOOLEAN, ol : BOOLEAN]
    /\ Book(st)
\* the reference is one of the declared classes and a top-level producer wins
RefRule == \A l \in 1..st.n :
    LET r == Ref(st, order, l) IN
      /\ r \in FormSet(st)
      /\ (NProd(st, l) >= 1 => l \in TopLeaves(st, r))
      /\ (NProd(st, l) = 1 => r = Ref(st, Ident(Len(st.chains)), l))
\* non-vacuity theorem: the rule depends on the order exactly for the flagged structures
SensitiveIffRefMoves == Sensitive(st) <=> \E p \in Perms(Len(st.chains)) : RefDiffers(st, p)
\* the default options are admissible in both frames, so the baseline of every comparison exists
BaselineAdmissible == Judgeable(st, Ident(Len(st.chains)), BaseOpt(st), frame)
\* without identical particles the table is the admissibility table
JudgeableTrivial == ~NeedsAlign(st) => (Judgeable(st, order, opt, frame) <=> Admissible(opt, frame))

--------------------------------------------------------------------------
(* tables for the harness                                                   *)
AsRec(s) ==
    [n |-> s.n, top |-> s.top, fin |-> s.fin,
     chains |-> [k \in 1..Len(s.chains) |-> [form |-> s.chains[k].form, res |-> s.chains[k].res]],
     pb |-> s.pb, ident |-> s.ident, model |-> s.model,
     valid |-> Valid(s), parity |-> ParityOK(s), enabled |-> Enabled(s),
     swapaligned |-> SwapAligned(s)]

Coverage(S) ==
    [resj2 |-> UNION {UNION {{r[2] : r \in s.chains[k].res} : k \in 1..Len(s.chains)} : s \in S},
     topj2 |-> {s.top[1] : s \in S},
     finj2 |-> UNION {{s.fin[i][1] : i \in 1..s.n} : s \in S},
     pb |-> {s.pb : s \in S}, n |-> {s.n : s \in S},
     nchains |-> {Len(s.chains) : s \in S},
     ident |-> {s.ident # {} : s \in S},
     idgroups |-> {Cardinality(s.ident) : s \in S},
     idsize |-> UNION {{Cardinality(g) : g \in s.ident} : s \in S},
     spinident |-> {SwapAligned(s) : s \in {x \in S : x.ident # {} /\ Spinning(x) # {}}},
     parity4 |-> {ParityOK(s) : s \in {x \in S : x.n = 4}}]

PostFrame ==
    LET all == Catalogue
        good == {s \in all : Valid(s)}
    IN /\ TLCGet("stats").diameter >= 0
       /\ JsonSerialize(IOEnv.OUT_FILE,
            [family |-> "frame", maxword |-> MaxWord, thin |-> Thin, offset |-> Offset,
             catalogue |-> Cardinality(all), nvalid |-> Cardinality(good),
             coverage |-> Coverage(good),
             structures |-> SetToSeq({AsRec(s) : s \in good})])

PostBook ==
    LET fam == SetToSeq(Catalogue2) IN
    /\ TLCGet("stats").diameter >= 0
    /\ JsonSerialize(IOEnv.OUT_FILE,
         [family |-> "book", thin |-> Thin, offset |-> Offset,
          n |-> Len(fam),
          nsensitive |-> Cardinality({k \in 1..Len(fam) : Sensitive(fam[k])}),
          norphan |-> Cardinality({k \in 1..Len(fam) : Orphans(fam[k]) # {} /\ Sensitive(fam[k])}),
          norphanhalf |-> Cardinality({k \in 1..Len(fam) : Sensitive(fam[k]) /\ \E l \in Orphans(fam[k]) : (fam[k].fin[l][1] % 2) = 1}),
          nmulti |-> Cardinality({k \in 1..Len(fam) : Multis(fam[k]) # {} /\ Sensitive(fam[k])}),
          admissible |-> {<<o.ar, o.rz, o.cm, o.ol, fr, Admissible(o, fr)>> :
                             o \in [ar : {"none", "cm"}, rz : BOOLEAN, cm : BOOLEAN, ol : BOOLEAN], fr \in {"rest", "lab"}},
          structures |-> [k \in 1..Len(fam) |->
              [s |-> AsRec(fam[k]), sensitive |-> Sensitive(fam[k]),
               orphans |-> Orphans(fam[k]), multis |-> Multis(fam[k]),
               needsalign |-> NeedsAlign(fam[k]),
               baseopt |-> LET b == BaseOpt(fam[k]) IN <<b.ar, b.rz, b.cm, b.ol>>,
               refs |-> {<<p, [l \in 1..fam[k].n |-> Ref(fam[k], p, l)], RefDiffers(fam[k], p), SwapAlignedOrd(fam[k], p)>> :
                            p \in Perms(Len(fam[k].chains))},
               judgeable |-> IF NeedsAlign(fam[k])
                             THEN {x \in Perms(Len(fam[k].chains)) \X {"none", "cm"} \X BOOLEAN \X BOOLEAN \X BOOLEAN \X {"rest", "lab"} :
                                     Judgeable(fam[k], x[1], [ar |-> x[2], rz |-> x[3], cm |-> x[4], ol |-> x[5]], x[6])}
                             ELSE {}]]])
==========================================================================
