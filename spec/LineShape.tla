----------------------------- MODULE LineShape -----------------------------
(* C15 -- line shapes equal their documented formulas.                       *)
(*                                                                           *)
(* This module is the single source of truth for the DOCUMENTED formulas of  *)
(* tf_pwa/breit_wigner.py, tf_pwa/amp/core.py, amp/base.py, amp/split_ls.py, *)
(* amp/flatte.py (doc strings; the code is never consulted).  Every formula  *)
(* is an expression tree over the operators                                  *)
(*   const var I pi add sub mul div neg powi sqrt exp log tanh cos sin       *)
(*   absr abs2 bwpoly ifge0                                                  *)
(* (records [op |-> ..., a |-> ..., b |-> ...]).  Signs of i, exponents      *)
(* 2L+1, the factor m0/m, the order of the barrier polynomial, channel sums  *)
(* and threshold cases are all visible in the trees below.                   *)
(*                                                                           *)
(* TLC evaluates the rational sub-language EXACTLY (limb arithmetic of       *)
(* module Barrier) on a lattice of kinematic points whose break-up momenta   *)
(* are rational, one TLC state per (formula, L, lattice point), and checks   *)
(* as invariants the theorems the property states:                           *)
(*   InvImPositive  Breit-Wigner family 1/(m0^2-m^2-i m0 Gamma(m)): Im > 0   *)
(*   InvNominal     value i/(m0 Gamma0) at m = m0; Gamma(m0) = Gamma0;       *)
(*                  barrier factor 1 (q0^L for q^L B_L') at q = q0           *)
(*   InvAgree       q^2-based variants = q-based ones above threshold;       *)
(*                  table polynomial = |theta_L(i q d)|^2 evaluated from     *)
(*                  the reverse Bessel polynomial in complex arithmetic;     *)
(*                  FlatteC = conj(Flatte) when every channel is open        *)
(*   InvFiniteBelow variants claiming support stay finite below threshold    *)
(*                  (away from the roots of the barrier polynomial, where    *)
(*                  the documented formula is singular: InvSingularAtRoot)   *)
(*   InvEvaluable, InvWellFormed, InvLattice   the machinery itself          *)
(*   InvTable       theorems of the coefficient table, every L in 0..8       *)
(* The harness (harness/checks/c15.py) takes the trees, the exact lattice    *)
(* values and the exact table and holds the real tf_pwa to them.             *)
EXTENDS Barrier, Json, IOUtils

CONSTANTS Thorough        \* FALSE: quick lattice, TRUE: full lattice

VARIABLE st
vars == <<st>>

----------------------------------------------------------------------------
(* expression trees *)
K(n) == [op |-> "const", num |-> n, den |-> 1]
Q(n, d) == [op |-> "const", num |-> n, den |-> d]
V(s) == [op |-> "var", name |-> s]
ImagI == [op |-> "I"]
Pi == [op |-> "pi"]
Add(a, b) == [op |-> "add", a |-> a, b |-> b]
Sub(a, b) == [op |-> "sub", a |-> a, b |-> b]
Mul(a, b) == [op |-> "mul", a |-> a, b |-> b]
Div(a, b) == [op |-> "div", a |-> a, b |-> b]
Neg(a) == [op |-> "neg", a |-> a]
PowI(a, n) == [op |-> "powi", a |-> a, n |-> n]            \* n a non-negative integer
Sqrt(a) == [op |-> "sqrt", a |-> a]                        \* principal branch
Exp(a) == [op |-> "exp", a |-> a]
Log(a) == [op |-> "log", a |-> a]
Tanh(a) == [op |-> "tanh", a |-> a]
Cos(a) == [op |-> "cos", a |-> a]
Sin(a) == [op |-> "sin", a |-> a]
AbsR(a) == [op |-> "absr", a |-> a]                        \* |a| of a real number
Abs2(a) == [op |-> "abs2", a |-> a]                        \* |a|^2 of a complex number
BwPoly(L, z) == [op |-> "bwpoly", L |-> L, a |-> z]        \* sum_i BWTab[L][i+1] z^(L-i), z = w^2: |theta_L(i w)|^2
IfGe0(c, a, b) == [op |-> "ifge0", c |-> c, a |-> a, b |-> b]   \* a if c >= 0 else b  (c real)
Sq(a) == PowI(a, 2)
Mul3(a, b, c) == Mul(Mul(a, b), c)
Mul4(a, b, c, e) == Mul(Mul(Mul(a, b), c), e)
One == K(1)
Two == K(2)

m == V("m")
m0 == V("m0")
g0 == V("g0")
d == V("d")
q == V("q")           \* break-up momentum at m  (only above threshold)
q0 == V("q0")         \* break-up momentum at m0
q2 == V("q2")         \* its square (either sign)
q02 == V("q02")
Delta == Sub(Sq(m0), Sq(m))                              \* m0^2 - m^2

\* two-body break-up momentum  (written out in the doc string of Flatte and in formula.get_relative_p)
\*   q^2 = (M^2 - (m1+m2)^2)(M^2 - (m1-m2)^2) / (4 M^2)
Lambda2(M, a, b) == Mul(Sub(Sq(M), Sq(Add(a, b))), Sub(Sq(M), Sq(Sub(a, b))))
Q2T(M, a, b) == Div(Lambda2(M, a, b), Mul(K(4), Sq(M)))
QT(M, a, b) == Div(Sqrt(Lambda2(M, a, b)), Mul(Two, M))

\* reverse Bessel polynomial (doc of reverse_bessel_polynomials)
\*   theta_n(x) = sum_k (n+k)!/((n-k)! k!) x^(n-k) / 2^k
RECURSIVE ThetaFrom(_, _, _)
ThetaFrom(n, x, k) ==
    IF k = n THEN K(BesselA(n, n))
    ELSE Add(Mul(K(BesselA(n, k)), PowI(x, n - k)), ThetaFrom(n, x, k + 1))
ThetaT(n, x) == ThetaFrom(n, x, 0)

\* Blatt-Weisskopf barrier factor (doc of Bprime: table for L = 0, 1, 2; the property: built from
\* |theta_L(i q d)|^2 for every L)
\*   B_L'(q, q0, d) = sqrt( |theta_L(i q0 d)|^2 / |theta_L(i q d)|^2 )
BprimeRad(L, qq, qq0) == Div(BwPoly(L, Sq(Mul(qq0, d))), BwPoly(L, Sq(Mul(qq, d))))
BprimeT(L, qq, qq0) == Sqrt(BprimeRad(L, qq, qq0))

\* running width (doc of Gamma and of Gamma2)
\*   Gamma(m) = Gamma0 (q/q0)^(2L+1) (m0/m) B_L'^2(q, q0, d)
GammaG(L, qq, qq0) == Mul4(g0, PowI(Div(qq, qq0), 2 * L + 1), Div(m0, m), PowI(BprimeT(L, qq, qq0), 2))
\* the q^2-based functions receive q^2 and q0^2; the documented formula is in q = sqrt(q^2)
SQ == Sqrt(q2)
SQ0 == Sqrt(q02)

\* Breit-Wigner family
\*   BW(m)  = 1 / (m0^2 - m^2 - i m0 Gamma0)
\*   BWR(m) = 1 / (m0^2 - m^2 - i m0 Gamma(m))
BWDen(width) == Sub(Delta, Mul(ImagI, Mul(m0, width)))
BWT == Div(One, BWDen(g0))
BWRT(L) == Div(One, BWDen(GammaG(L, q, q0)))
BWR2T(L) == Div(One, BWDen(GammaG(L, SQ, SQ0)))
\*   BWR_normal(m) = sqrt(m0 Gamma(m)) / (m0^2 - m^2 - i m0 Gamma(m))
BWRNormalT(L) == Div(Sqrt(Mul(m0, GammaG(L, SQ, SQ0))), BWDen(GammaG(L, SQ, SQ0)))
\*   BWR_coupling: R(m) = 1 / (m0^2 - m^2 - i m0 Gamma0 (q/m) q^(2l) B_L'^2(q, 1/d, d))
BWRCouplingT(L) ==
    Div(One, Sub(Delta, Mul(ImagI, Mul4(Mul(m0, g0), Div(SQ, m), PowI(SQ, 2 * L),
                                        PowI(BprimeT(L, SQ, Div(One, d)), 2)))))

\* BWR_LS: R_i(m) = g_i / (m0^2 - m^2 - i m0 Gamma0 (rho/rho0) sum_j g_j^2),  rho = 2q/m,
\*   g_i = gamma_i (q/q0)^(l_i) B_{l_i}'(q, q0, d),  sum gamma_i^2 = 1,
\*   gamma = (cos th0, sin th0 cos th1, ..., prod sin th_i)
ThetaName(j) == CASE j = 0 -> "theta0" [] j = 1 -> "theta1" [] j = 2 -> "theta2"
RECURSIVE SinProd(_)
SinProd(j) == IF j = 0 THEN One ELSE Mul(SinProd(j - 1), Sin(V(ThetaName(j - 1))))     \* prod_{t<j} sin th_t
GammaFac(n, i) == IF n = 1 THEN One
                  ELSE IF i < n THEN Mul(SinProd(i - 1), Cos(V(ThetaName(i - 1)))) ELSE SinProd(n - 1)
PartialG(l, gam) == Mul3(gam, PowI(Div(SQ, SQ0), l), BprimeT(l, SQ, SQ0))
\* g_i^2 written out: gamma_i^2 (q/q0)^(2 l_i) B_{l_i}'^2   (rational whenever q/q0 is)
PartialG2(l, gam) == Mul3(Sq(gam), PowI(Div(SQ, SQ0), 2 * l), PowI(BprimeT(l, SQ, SQ0), 2))
RhoRatio == Div(Div(Mul(Two, SQ), m), Div(Mul(Two, SQ0), m0))                           \* rho / rho0
RECURSIVE SumG2(_, _)
SumG2(ls, j) == IF j > Len(ls) THEN K(0)
                ELSE Add(PartialG2(ls[j], GammaFac(Len(ls), j)), SumG2(ls, j + 1))
BWRLSTG(ls, i, rho) ==
    Div(PartialG(ls[i], GammaFac(Len(ls), i)),
        Sub(Delta, Mul(ImagI, Mul4(m0, g0, rho, SumG2(ls, 1)))))
BWRLST(ls, i) == BWRLSTG(ls, i, RhoRatio)
\* BWR_LS2: R_i(m) = 1 / (m0^2 - m^2 - i m0 Gamma0 (rho/rho0) g_i^2),  g_i = gamma_i (q/q0)^l B_l'
\*   (the doc string names gamma_i without defining it for this model; there is no such parameter: gamma_i = 1)
BWRLS2T(L) == Div(One, Sub(Delta, Mul(ImagI, Mul4(m0, g0, RhoRatio, PartialG2(L, V("gamma_i"))))))

\* Gounaris-Sakurai (doc of ParticleGS)
\*   R(m) = (1 + D Gamma0/m0) / ((m0^2 - m^2) + f(m) - i m0 Gamma(m))
\*   f(m) = Gamma0 m0^2/q0^3 [ q^2 (h(m) - h(m0)) + (m0^2 - m^2) q0^2 dh/dm|m0 ]
\*   h(m) = (2/pi) (q/m) ln((m + 2q)/(2 mpi))
\*   dh/dm|m0 = h(m0) [ (8 q0^2)^-1 - (2 m0^2)^-1 ] + (2 pi m0^2)^-1
\*   D = (3/pi) (mpi^2/q0^2) ln((m0 + 2 q0)/(2 mpi)) + m0/(2 pi q0) - mpi^2 m0/(pi q0^3)
mpi == V("mpi")
HT(mm, qq) == Mul3(Div(Two, Pi), Div(qq, mm), Log(Div(Add(mm, Mul(Two, qq)), Mul(Two, mpi))))
DHT == Add(Mul(HT(m0, q0), Sub(Div(One, Mul(K(8), Sq(q0))), Div(One, Mul(Two, Sq(m0))))),
           Div(One, Mul3(Two, Pi, Sq(m0))))
FT == Mul(Mul(g0, Div(Sq(m0), PowI(q0, 3))),
          Add(Mul(Sq(q), Sub(HT(m, q), HT(m0, q0))), Mul3(Delta, Sq(q0), DHT)))
DT == Sub(Add(Mul3(Div(K(3), Pi), Div(Sq(mpi), Sq(q0)), Log(Div(Add(m0, Mul(Two, q0)), Mul(Two, mpi)))),
              Div(m0, Mul3(Two, Pi, q0))),
          Div(Mul(Sq(mpi), m0), Mul(Pi, PowI(q0, 3))))
GST(L) == Div(Add(One, Mul(DT, Div(g0, m0))),
              Sub(Add(Delta, FT), Mul(ImagI, Mul(m0, GammaG(L, q, q0)))))

\* Flatte:  R(m) = 1 / (m0^2 - m^2 + i m0 sum_i g_i q_i/m)      FlatteC: - i
\*   q_i = sqrt(p2_i)/(2m) if p2_i >= 0 else i sqrt|p2_i|/(2m),  p2_i = (m^2-(m_i1+m_i2)^2)(m^2-(m_i1-m_i2)^2)
NCH == 2
GName(i) == CASE i = 0 -> "g_0" [] i = 1 -> "g_1"
MaName(i) == CASE i = 0 -> "ma_0" [] i = 1 -> "ma_1"
MbName(i) == CASE i = 0 -> "mb_0" [] i = 1 -> "mb_1"
FlatteQ(i) ==
    LET p2 == Lambda2(m, V(MaName(i)), V(MbName(i)))
    IN IfGe0(p2, Div(Sqrt(p2), Mul(Two, m)), Div(Mul(ImagI, Sqrt(AbsR(p2))), Mul(Two, m)))
RECURSIVE FlatteSum(_)
FlatteSum(i) == IF i = NCH THEN K(0) ELSE Add(Mul(V(GName(i)), Div(FlatteQ(i), m)), FlatteSum(i + 1))   \* sum over channels
FlatteT == Div(One, Add(Delta, Mul(ImagI, Mul(m0, FlatteSum(0)))))
FlatteCT == Div(One, Sub(Delta, Mul(ImagI, Mul(m0, FlatteSum(0)))))

\* one: R = 1;  x: R = m;  exp: R = exp(-|a| m);  exp_com: R = exp(-(a + i b) m^2)
ExpT == Exp(Neg(Mul(AbsR(V("a")), m)))
ExpComT == Exp(Neg(Mul(Add(V("a"), Mul(ImagI, V("b"))), Sq(m))))
\* ad-hoc effective mass (doc of _ad_hoc and option (4) of HelicityDecay)
\*   m_eff = m_min + (m_max - m_min)/2 (1 + tanh((m0 - (m_max + m_min)/2)/(m_max - m_min)))
mmax == V("m_max")
mmin == V("m_min")
AdHocT == Add(mmin, Mul(Div(Sub(mmax, mmin), Two),
                        Add(One, Tanh(Div(Sub(m0, Div(Add(mmax, mmin), Two)), Sub(mmax, mmin))))))

----------------------------------------------------------------------------
(* the formulas: name, largest L (0 when the formula has no L), where it is documented *)
E(name, lmax, doc) == [name |-> name, lmax |-> lmax, doc |-> doc]
Entries == <<
    E("BW", 0, "breit_wigner.BW; amp.base.ParticleBW"),
    E("BWR", 8, "breit_wigner.BWR; amp.core.Particle (BWR, default)"),
    E("BWR2", 8, "breit_wigner.BWR2; amp.base.ParticleBWR2"),
    E("BWR_below", 8, "amp.base.ParticleBWRBelowThreshold"),
    E("BWR_normal", 8, "breit_wigner.BWR_normal; amp.base.ParticleBWR_normal"),
    E("BWR_coupling", 8, "amp.base.ParticleBWRCoupling"),
    E("BWR_LS_1of1", 8, "amp.split_ls.ParticleBWRLS, one (l,s)"),
    E("BWR_LS_1of2", 6, "amp.split_ls.ParticleBWRLS, l list (L, L+2), first component"),
    E("BWR_LS_2of2", 6, "amp.split_ls.ParticleBWRLS, l list (L, L+2), second component"),
    E("BWR_LS2", 8, "amp.split_ls.ParticleBWRLS2"),
    E("MultiBWR_1", 0, "amp.split_ls.ParticleMultiBWR: no closed formula documented; reading: ONE combined BWR with coefficient 1 in an s-wave is the documented BWR"),
    E("GS_rho", 8, "amp.base.ParticleGS"),
    E("Flatte", 0, "amp.flatte.ParticleFlatte"),
    E("FlatteC", 0, "amp.flatte.ParticleFlatteC"),
    E("one", 0, "breit_wigner.one; amp.base.ParticleOne"),
    E("exp", 0, "amp.base.ParticleExp"),
    E("exp_com", 0, "amp.base.ParticleExpCom"),
    E("x", 0, "amp.core.ParticleX"),
    E("Gamma", 8, "breit_wigner.Gamma"),
    E("Gamma2", 8, "breit_wigner.Gamma2"),
    E("Bprime", 8, "breit_wigner.Bprime"),
    E("BprimeRad", 8, "breit_wigner.Bprime: the radicand (B_L')^2"),
    E("Bprime_q2", 8, "breit_wigner.Bprime_q2"),
    E("barrier_factor", 8, "breit_wigner.barrier_factor / barrier_factor2: q^L B_L'"),
    E("Bprime_polynomial", 8, "breit_wigner.Bprime_polynomial; formula.Bprime_polynomial; get_bprime_coeff"),
    E("theta2", 8, "|theta_L(i q d)|^2 from the definition of reverse_bessel_polynomials"),
    E("reverse_bessel", 8, "breit_wigner.reverse_bessel_polynomials"),
    E("q", 0, "amp.core.get_relative_p; formula.get_relative_p; amp.flatte.cal_monentum"),
    E("q2", 0, "amp.core.get_relative_p2; formula.get_relative_p2"),
    E("flatte_q", 0, "amp.flatte.cal_monentum: the two cases of q_i"),
    E("ad_hoc", 0, "amp.core._ad_hoc") >>
EntryNames == {Entries[i].name : i \in 1..Len(Entries)}
EntryOf(name) == Entries[CHOOSE i \in 1..Len(Entries) : Entries[i].name = name]

TreeOf(name, L) ==
    CASE name = "BW" -> BWT
      [] name = "BWR" -> BWRT(L)
      [] name = "BWR2" -> BWR2T(L)
      [] name = "BWR_below" -> BWR2T(L)
      [] name = "BWR_normal" -> BWRNormalT(L)
      [] name = "BWR_coupling" -> BWRCouplingT(L)
      [] name = "BWR_LS_1of1" -> BWRLST(<<L>>, 1)
      [] name = "BWR_LS_1of2" -> BWRLST(<<L, L + 2>>, 1)
      [] name = "BWR_LS_2of2" -> BWRLST(<<L, L + 2>>, 2)
      [] name = "BWR_LS2" -> BWRLS2T(L)
      [] name = "MultiBWR_1" -> BWR2T(0)
      [] name = "GS_rho" -> GST(L)
      [] name = "Flatte" -> FlatteT
      [] name = "FlatteC" -> FlatteCT
      [] name = "one" -> One
      [] name = "exp" -> ExpT
      [] name = "exp_com" -> ExpComT
      [] name = "x" -> m
      [] name = "Gamma" -> GammaG(L, q, q0)
      [] name = "Gamma2" -> GammaG(L, SQ, SQ0)
      [] name = "Bprime" -> BprimeT(L, q, q0)
      [] name = "BprimeRad" -> BprimeRad(L, q, q0)
      [] name = "Bprime_q2" -> BprimeT(L, SQ, SQ0)
      [] name = "barrier_factor" -> Mul(PowI(q, L), BprimeT(L, q, q0))
      [] name = "Bprime_polynomial" -> BwPoly(L, V("z"))
      [] name = "theta2" -> Abs2(ThetaT(L, Mul(ImagI, Mul(q, d))))
      [] name = "reverse_bessel" -> ThetaT(L, V("x"))
      [] name = "q" -> QT(m, V("m1"), V("m2"))
      [] name = "q2" -> Q2T(m, V("m1"), V("m2"))
      [] name = "flatte_q" -> FlatteQ(0)
      [] name = "ad_hoc" -> AdHocT

\* ---- recognised deviations: NOT documentation.  A formula an implementation is known to follow instead of
\* its documentation; the harness reports an implementation that matches one under the deviation's own name
\* (so that a listed finding does not hide any other failure of the same implementation).
\* BWR_LS, default options (fix_bug1 = False): the width term carries (q/q0)(m/m0) in place of rho/rho0 = (q/q0)(m0/m)
RhoRatioBug1 == Mul(Div(SQ, SQ0), Div(m, m0))
HasDeviation(name) == name \in {"BWR_LS_1of1", "BWR_LS_1of2", "BWR_LS_2of2"}
DeviationTree(name, L) ==
    CASE name = "BWR_LS_1of1" -> BWRLSTG(<<L>>, 1, RhoRatioBug1)
      [] name = "BWR_LS_1of2" -> BWRLSTG(<<L, L + 2>>, 1, RhoRatioBug1)
      [] name = "BWR_LS_2of2" -> BWRLSTG(<<L, L + 2>>, 2, RhoRatioBug1)
DeviationName == "width_term_m_over_m0"
DeviationWhat == "matches the documented formula with rho/rho0 = (q/q0)(m0/m) replaced by (q/q0)(m/m0)"

\* ---- the theorems, by formula name ----
\* documented as 1/(m0^2 - m^2 - i m0 Gamma(m)) (Gamma > 0 above threshold): positive imaginary part
ImPositive == {"BW", "BWR", "BWR2", "BWR_below", "BWR_LS2", "MultiBWR_1", "BWR_coupling", "BWR_normal",
               "BWR_LS_1of1", "BWR_LS_1of2", "BWR_LS_2of2"}
\* exactly evaluable (rational) above threshold on the whole lattice
RationalAbove == {"BW", "BWR", "BWR2", "BWR_below", "BWR_LS2", "MultiBWR_1", "BWR_coupling", "Flatte", "FlatteC", "one", "x",
                  "Gamma", "Gamma2", "BprimeRad", "Bprime_polynomial", "theta2", "reverse_bessel", "q", "q2", "flatte_q"}
\* claim support below threshold (q^2 < 0): must stay finite there
ClaimsBelow == {"BWR2", "BWR_below", "BWR_LS2", "Gamma2", "Bprime_polynomial", "Flatte", "FlatteC", "q2", "flatte_q",
                "BW", "one", "x"}
\* no exact rational value anywhere (transcendental): trees only
Transcendental == {"GS_rho", "exp", "exp_com", "ad_hoc"}
PoleValue == Div(ImagI, Mul(m0, g0))                         \* i/(m0 Gamma0)
HasNominal(name) == name \in {"BW", "BWR", "BWR2", "BWR_below", "BWR_LS2", "MultiBWR_1", "BWR_normal",
                               "BWR_LS_1of1", "BWR_LS_1of2", "BWR_LS_2of2", "Gamma", "Gamma2",
                               "Bprime", "BprimeRad", "Bprime_q2", "barrier_factor"}
Nominal(name, L) ==
    CASE name \in {"BW", "BWR", "BWR2", "BWR_below", "BWR_LS2", "MultiBWR_1", "BWR_LS_1of1"} -> PoleValue
      [] name = "BWR_LS_1of2" -> Mul(GammaFac(2, 1), PoleValue)
      [] name = "BWR_LS_2of2" -> Mul(GammaFac(2, 2), PoleValue)
      [] name = "BWR_normal" -> Div(ImagI, Sqrt(Mul(m0, g0)))
      [] name \in {"Gamma", "Gamma2"} -> g0                  \* Gamma(m0) = Gamma0
      [] name \in {"Bprime", "BprimeRad", "Bprime_q2"} -> One \* barrier factor one at q = q0
      [] name = "barrier_factor" -> PowI(q0, L)
HasPartner(name) == name \in {"BWR2", "BWR_below", "BWR_LS2", "MultiBWR_1", "Gamma2", "Bprime_q2",
                               "Bprime_polynomial", "FlatteC", "BWR_LS_1of1"}
PartnerTree(name, L) ==
    CASE name \in {"BWR2", "BWR_below"} -> BWRT(L)           \* q^2-based = q-based above threshold
      [] name = "BWR_LS2" -> BWR2T(L)                        \* same function, written with rho/rho0
      [] name = "MultiBWR_1" -> BWRT(0)
      [] name = "Gamma2" -> GammaG(L, q, q0)
      [] name = "Bprime_q2" -> BprimeT(L, q, q0)
      [] name = "Bprime_polynomial" -> Abs2(ThetaT(L, Mul(ImagI, Mul(q, d))))   \* table = |theta_L(i q d)|^2 (real q)
      [] name = "FlatteC" -> FlatteT                         \* conjugates when every channel is open
      [] name = "BWR_LS_1of1" -> Mul(PartialG(L, One), BWRT(L))   \* one (l,s): g times the BWR

----------------------------------------------------------------------------
(* native rationals <<n, d>> (d > 0, reduced) for the lattice and the pool of square roots *)
RECURSIVE Gcd(_, _)
Gcd(a, b) == IF b = 0 THEN a ELSE Gcd(b, a % b)
AbsI(x) == IF x < 0 THEN -x ELSE x
RNorm(r) == LET g == Gcd(AbsI(r[1]), r[2]) IN IF r[1] = 0 THEN <<0, 1>> ELSE <<r[1] \div g, r[2] \div g>>
RMul(a, b) == RNorm(<<a[1] * b[1], a[2] * b[2]>>)
RAdd(a, b) == RNorm(<<a[1] * b[2] + b[1] * a[2], a[2] * b[2]>>)
RSub(a, b) == RNorm(<<a[1] * b[2] - b[1] * a[2], a[2] * b[2]>>)
RInv(a) == IF a[1] > 0 THEN <<a[2], a[1]>> ELSE <<-a[2], -a[1]>>          \* a # 0
RDiv(a, b) == RMul(a, RInv(b))
RAbs(a) == <<AbsI(a[1]), a[2]>>
RLess(a, b) == a[1] * b[2] < b[1] * a[2]
ISqrtMax == 3000
ISqrt(n) == IF \E k \in 0..ISqrtMax : k * k = n THEN CHOOSE k \in 0..ISqrtMax : k * k = n ELSE -1
RHasSqrt(a) == a[1] >= 0 /\ ISqrt(a[1]) >= 0 /\ ISqrt(a[2]) >= 0
RSqrt(a) == <<ISqrt(a[1]), ISqrt(a[2])>>
RQ2(M, a, b) == RDiv(RMul(RSub(RMul(M, M), RMul(RAdd(a, b), RAdd(a, b))), RSub(RMul(M, M), RMul(RSub(a, b), RSub(a, b)))),
                     RMul(<<4, 1>>, RMul(M, M)))

\* ---- lattice: kinematic points with rational break-up momenta ----
\* families: <<m1, m2, {masses above threshold with rational q}, {masses below threshold with rational |q|}>>
FamiliesQuick == <<
    << <<0, 1>>, <<0, 1>>, {<<1, 1>>, <<3, 2>>, <<3, 1>>}, {} >>,                       \* massless daughters: q = m/2
    << <<2, 1>>, <<2, 1>>, {<<13, 3>>, <<5, 1>>, <<17, 2>>}, {} >>,                     \* q = 5/6, 3/2, 15/4
    << <<1, 1>>, <<1, 1>>, {<<5, 2>>, <<10, 3>>}, {} >>,                                \* q = 3/4, 4/3
    << <<0, 1>>, <<1, 1>>, {<<2, 1>>, <<3, 1>>}, {} >>,                                 \* one massless: q = (m^2-1)/(2m)
    << <<1, 1>>, <<5, 2>>, {<<9, 2>>, <<21, 4>>}, {} >>,                                \* unequal masses: q = 4/3, 15/8
    << <<5, 2>>, <<5, 2>>, {<<17, 3>>, <<25, 4>>}, {<<3, 1>>, <<4, 1>>} >> >>           \* q = 4/3, 15/8; |q| = 2, 3/2 below
\* additional masses of the thorough tier (same daughters)
ExtraAbove == << {<<2, 1>>, <<5, 2>>}, {<<20, 3>>}, {<<17, 4>>}, {<<3, 2>>}, {}, {<<25, 3>>} >>
Families == [f \in 1..Len(FamiliesQuick) |->
                <<FamiliesQuick[f][1], FamiliesQuick[f][2],
                  FamiliesQuick[f][3] \cup (IF Thorough THEN ExtraAbove[f] ELSE {}), FamiliesQuick[f][4]>>]
\* (Gamma0, d) combinations
Widths == IF Thorough THEN {<< <<1, 2>>, <<3, 1>> >>, << <<2, 1>>, <<1, 1>> >>, << <<2, 1>>, <<3, 1>> >>, << <<1, 2>>, <<1, 1>> >>,
                            << <<1, 3>>, <<1, 2>> >>, << <<3, 2>>, <<2, 1>> >>}
          ELSE {<< <<1, 2>>, <<3, 1>> >>, << <<2, 1>>, <<1, 1>> >>}
Point(f, M, M0, w) == [m |-> M, m0 |-> M0, g0 |-> w[1], d |-> w[2], m1 |-> Families[f][1], m2 |-> Families[f][2], fam |-> f]
Points ==
    UNION {UNION {{Point(f, M, M0, w) : M \in (Families[f][3] \cup Families[f][4]), M0 \in Families[f][3]}
                  : w \in Widths} : f \in 1..Len(Families)}
Threshold(p) == RAdd(p.m1, p.m2)
AboveM(p) == RLess(Threshold(p), p.m)          \* m above threshold (m0 always is)
\* second Flatte channel (0, 1): q_1 = (m^2 - 1)/(2m), open for m > 1, p2 = (m^2-1)^2 >= 0 always
Ch1 == << <<0, 1>>, <<1, 1>> >>
G1 == <<1, 3>>
AllOpen(p) == AboveM(p) /\ RLess(<<1, 1>>, p.m)
\* rational angle of the two-component BWR_LS: cos = 3/5, sin = 4/5
CosTheta0 == <<3, 5>>
SinTheta0 == <<4, 5>>

PQ2(p) == RQ2(p.m, p.m1, p.m2)
PQ02(p) == RQ2(p.m0, p.m1, p.m2)
Pool(p) ==
    LET a == RSqrt(RAbs(PQ2(p)))            \* |q|
        b == RSqrt(PQ02(p))                 \* q0
        mg == RMul(p.m0, p.g0)
        base == {a, b, <<1, 1>>, RMul(<<2, 1>>, RMul(p.m, a)),                       \* sqrt|p2_0| = 2 m |q|
                 RAbs(RSub(RMul(p.m, p.m), <<1, 1>>))}                               \* sqrt(p2_1) = |m^2 - 1|
                \cup (IF RHasSqrt(mg) THEN {RSqrt(mg)} ELSE {})
                \cup (IF a[1] # 0 THEN {RDiv(b, a)} ELSE {}) \cup {RDiv(a, b)}
    IN base
LatticeOK(p) ==
    /\ RHasSqrt(RAbs(PQ2(p))) /\ RHasSqrt(PQ02(p))
    /\ PQ02(p)[1] > 0
    /\ (AboveM(p) <=> PQ2(p)[1] > 0)
    /\ p.g0[1] > 0 /\ p.d[1] > 0

CR(r) == CFromQ(r[1], r[2])
\* the independent variables of a lattice point (native rationals; exported to the harness as they are)
BaseVars(p) ==
    [m |-> p.m, m0 |-> p.m0, g0 |-> p.g0, d |-> p.d, m1 |-> p.m1, m2 |-> p.m2,
     g_0 |-> p.g0, g_1 |-> G1, ma_0 |-> p.m1, mb_0 |-> p.m2, ma_1 |-> Ch1[1], mb_1 |-> Ch1[2],
     gamma_i |-> <<1, 1>>, x |-> p.m, mpi |-> RDiv(RAdd(p.m1, p.m2), <<2, 1>>),
     cos_theta0 |-> CosTheta0, sin_theta0 |-> SinTheta0,
     a |-> <<-7, 10>>, b |-> <<3, 10>>, m_max |-> RAdd(p.m0, <<1, 1>>), m_min |-> Threshold(p)]
\* derived variables, bound in this order (each tree may use the earlier ones); the harness binds the
\* same list.  q (the q-based formulas) is defined above threshold only.
Derived == << <<"q2", Q2T(m, V("m1"), V("m2"))>>, <<"q02", Q2T(m0, V("m1"), V("m2"))>>,
              <<"q", Sqrt(q2)>>, <<"q0", Sqrt(q02)>>, <<"z", Mul(q2, Sq(d))>> >>
AboveOnly == {"q"}

RECURSIVE Eval(_, _)
Eval(t, env) ==
    CASE t.op = "const" -> CFromQ(t.num, t.den)
      [] t.op = "var" -> env.v[t.name]
      [] t.op = "I" -> CI
      [] t.op = "add" -> CAdd(Eval(t.a, env), Eval(t.b, env))
      [] t.op = "sub" -> CSub(Eval(t.a, env), Eval(t.b, env))
      [] t.op = "mul" -> CMul(Eval(t.a, env), Eval(t.b, env))
      [] t.op = "div" -> CDiv(Eval(t.a, env), Eval(t.b, env))
      [] t.op = "neg" -> CNeg(Eval(t.a, env))
      \* (sqrt x)^(2k) = x^k exactly (principal branch): keeps B_L'^2 rational
      [] t.op = "powi" -> IF t.a.op = "sqrt" /\ t.n % 2 = 0 THEN CPow(Eval(t.a.a, env), t.n \div 2)
                          ELSE CPow(Eval(t.a, env), t.n)
      [] t.op = "sqrt" -> CSqrt(Eval(t.a, env), env.pool)
      [] t.op = "absr" -> CAbsReal(Eval(t.a, env))
      [] t.op = "abs2" -> CAbs2(Eval(t.a, env))
      [] t.op = "bwpoly" -> CPolyZ(BWTab[t.L], Eval(t.a, env))
      [] t.op = "ifge0" -> LET c == Eval(t.c, env)
                           IN IF ~CIsReal(c) THEN CNA
                              ELSE IF CSignRe(c) >= 0 THEN Eval(t.a, env) ELSE Eval(t.b, env)
      \* rational angles: cos / sin of a variable are given by the lattice
      [] t.op = "cos" -> IF t.a.op = "var" /\ t.a.name = "theta0" THEN env.v["cos_theta0"] ELSE CNA
      [] t.op = "sin" -> IF t.a.op = "var" /\ t.a.name = "theta0" THEN env.v["sin_theta0"] ELSE CNA
      [] t.op \in {"exp", "log", "tanh", "pi"} -> CNA

RECURSIVE Bind(_, _, _)
Bind(env, p, i) ==
    IF i > Len(Derived) THEN env
    ELSE LET name == Derived[i][1]
             val == IF name \in AboveOnly /\ ~AboveM(p) THEN CNA ELSE Eval(Derived[i][2], env)
         IN Bind([v |-> TLCEval([n \in (DOMAIN env.v) \cup {name} |-> IF n = name THEN val ELSE env.v[n]]),
                  pool |-> env.pool], p, i + 1)
EnvOf(p) ==
    LET bv == BaseVars(p)
    IN Bind([v |-> TLCEval([n \in (DOMAIN bv) \cup {"theta0"} |-> IF n = "theta0" THEN CNA ELSE CR(bv[n])]),
             pool |-> Pool(p)], p, 1)
VarNames == {"m", "m0", "g0", "d", "m1", "m2", "g_0", "g_1", "ma_0", "mb_0", "ma_1", "mb_1", "gamma_i", "x", "mpi",
             "theta0", "a", "b", "m_max", "m_min"} \cup {Derived[i][1] : i \in 1..Len(Derived)}
Ops == {"const", "var", "I", "pi", "add", "sub", "mul", "div", "neg", "powi", "sqrt", "exp", "log", "tanh",
        "cos", "sin", "absr", "abs2", "bwpoly", "ifge0"}
RECURSIVE TreeWF(_)
TreeWF(t) ==
    /\ t.op \in Ops
    /\ CASE t.op = "const" -> t.den > 0
         [] t.op = "var" -> t.name \in VarNames
         [] t.op \in {"I", "pi"} -> TRUE
         [] t.op \in {"add", "sub", "mul", "div"} -> TreeWF(t.a) /\ TreeWF(t.b)
         [] t.op = "powi" -> t.n \in 0..(2 * MaxL + 3) /\ TreeWF(t.a)
         [] t.op = "bwpoly" -> t.L \in 0..MaxL /\ TreeWF(t.a)
         [] t.op = "ifge0" -> TreeWF(t.c) /\ TreeWF(t.a) /\ TreeWF(t.b)
         [] OTHER -> TreeWF(t.a)

----------------------------------------------------------------------------
(* state space: root -> one seed per (formula, L) -> one cell per lattice point; one table cell per L *)
LRange(e) == 0..e.lmax
Cell(name, L, p) ==
    LET env == EnvOf(p)
        v == Eval(TreeOf(name, L), env)
    IN [k |-> "cell", e |-> name, L |-> L, p |-> p,
        val |-> v,
        pval |-> IF HasPartner(name) THEN Eval(PartnerTree(name, L), env) ELSE CNA,
        nom |-> IF HasNominal(name) /\ p.m = p.m0 THEN Eval(Nominal(name, L), env) ELSE CNA]
\* transcendental formulas have no exact value: one state per (formula, L), no lattice
Init == st = [k |-> "root"]
Next ==
    \/ /\ st.k = "root"
       /\ \/ \E i \in 1..Len(Entries) : \E L \in LRange(Entries[i]) : st' = [k |-> "seed", e |-> Entries[i].name, L |-> L]
          \/ \E L \in 0..MaxL : st' = [k |-> "table", L |-> L]
    \/ /\ st.k = "seed"
       /\ IF st.e \in Transcendental
          THEN st' = [k |-> "tree", e |-> st.e, L |-> st.L]
          ELSE \E p \in Points : st' = Cell(st.e, st.L, p)

IsCell == st.k = "cell"
InvLattice == IsCell => LatticeOK(st.p)
InvWellFormed ==
    /\ (st.k \in {"seed", "tree"} => TreeWF(TreeOf(st.e, st.L)))
    /\ (IsCell /\ st.val.ok => CWellFormed(st.val))
InvEvaluable == (IsCell /\ st.e \in RationalAbove /\ AboveM(st.p)) => st.val.ok
InvImPositive == (IsCell /\ st.e \in ImPositive /\ AboveM(st.p) /\ st.val.ok) => CSignIm(st.val) = 1
InvNominal == (IsCell /\ HasNominal(st.e) /\ st.p.m = st.p.m0 /\ st.nom.ok) => CEq(st.val, st.nom)
\* the nominal value itself is rational for everything but BWR_normal (sqrt(m0 Gamma0))
InvNominalEvaluable == (IsCell /\ HasNominal(st.e) /\ st.p.m = st.p.m0 /\ st.e # "BWR_normal") => st.nom.ok /\ st.val.ok
InvAgree ==
    (IsCell /\ HasPartner(st.e) /\ st.val.ok /\ st.pval.ok) =>
        IF st.e = "FlatteC" THEN (AllOpen(st.p) => CEq(st.val, CConj(st.pval)))
        ELSE CEq(st.val, st.pval)
\* above threshold both sides of every agreement are evaluable (the comparison is not vacuous)
AgreeRational == {"BWR2", "BWR_below", "BWR_LS2", "MultiBWR_1", "Gamma2", "Bprime_polynomial", "FlatteC"}
InvAgreeEvaluable == (IsCell /\ st.e \in AgreeRational /\ AboveM(st.p)) => st.val.ok /\ st.pval.ok
\* The documented barrier polynomial |theta_L(i w)|^2 = P_L(w^2) has negative real roots for odd L (z = -1 for
\* L = 1): below threshold, at |q| d = sqrt(-root), the documented formula itself is singular.  "Finite below
\* threshold" is therefore a theorem only away from these isolated masses (the thorough lattice contains one).
PolyNonZero(p, L) ==
    LET z == CMul(CR(PQ2(p)), CMul(CR(p.d), CR(p.d)))
    IN CPolyZ(BWTab[L], z).re[1] # 0
InvFiniteBelow == (IsCell /\ st.e \in ClaimsBelow /\ ~AboveM(st.p) /\ PolyNonZero(st.p, st.L)) => st.val.ok
InvSingularAtRoot ==
    (IsCell /\ st.e \in {"BWR2", "BWR_below", "BWR_LS2", "Gamma2"} /\ ~AboveM(st.p) /\ ~PolyNonZero(st.p, st.L)) => ~st.val.ok
InvAngle == LET c == CR(CosTheta0) s == CR(SinTheta0) IN CEq(CAdd(CMul(c, c), CMul(s, s)), COne)
InvTable == st.k = "table" => BWTableTheorems(st.L)

----------------------------------------------------------------------------
(* output for the harness: trees, lattice, table.  The exact values are the `val` fields of the *)
(* cell states themselves (state dump): the numbers the invariants were checked on.            *)
NCells == Cardinality(Points) *
          Cardinality({<<i, L>> \in (1..Len(Entries)) \X (0..MaxL) : L <= Entries[i].lmax /\ Entries[i].name \notin Transcendental})
NSeeds == Cardinality({<<i, L>> \in (1..Len(Entries)) \X (0..MaxL) : L <= Entries[i].lmax})
NTrees == Cardinality({<<i, L>> \in (1..Len(Entries)) \X (0..MaxL) : L <= Entries[i].lmax /\ Entries[i].name \in Transcendental})
Post ==
    /\ TLCGet("stats").diameter >= 0
    /\ JsonSerialize(IOEnv.OUT_FILE,
         [base |-> Base,
          entries |-> [i \in 1..Len(Entries) |->
                         [name |-> Entries[i].name, lmax |-> Entries[i].lmax, doc |-> Entries[i].doc,
                          transcendental |-> Entries[i].name \in Transcendental,
                          trees |-> [L1 \in 1..(Entries[i].lmax + 1) |-> TreeOf(Entries[i].name, L1 - 1)],
                          deviations |-> IF HasDeviation(Entries[i].name)
                                         THEN <<[name |-> DeviationName, what |-> DeviationWhat,
                                                 trees |-> [L1 \in 1..(Entries[i].lmax + 1) |-> DeviationTree(Entries[i].name, L1 - 1)]]>>
                                         ELSE << >>]],
          bwtab |-> [L1 \in 1..(MaxL + 1) |-> BWTab[L1 - 1]],
          bessel |-> [L1 \in 1..(MaxL + 1) |-> [k1 \in 1..L1 |-> BesselA(L1 - 1, k1 - 1)]],
          points |-> {<<p, BaseVars(p), AboveM(p), AllOpen(p)>> : p \in Points},
          derived |-> Derived, above_only |-> AboveOnly,
          npoints |-> Cardinality(Points), ncells |-> NCells, nseeds |-> NSeeds, ntrees |-> NTrees,
          ch1 |-> Ch1, g1 |-> G1, cos_theta0 |-> CosTheta0, sin_theta0 |-> SinTheta0,
          sets |-> [im_positive |-> ImPositive, rational_above |-> RationalAbove, claims_below |-> ClaimsBelow,
                    transcendental |-> Transcendental]])
=============================================================================
