----------------------------- MODULE DataOps -----------------------------
(* Structured event data of tf_pwa (tf_pwa/data.py:391-682, 80-235).        *)
(*                                                                          *)
(* Data = tree of dict / list / tuple nodes whose leaves are arrays with    *)
(* one entry per event (1-d: an id; 2-d: a row of ids).  Two descriptions:  *)
(*                                                                          *)
(*  (1) declarative: Slice, Split, Merge, Mask, Index, BatchCall, BatchSum, *)
(*      LazyEval / LazyIter;                                                *)
(*  (2) implementation shaped: the generator of data_generator / data_split *)
(*      as a step machine (one Yield per next() on the root generator; a    *)
(*      container's generator is the zip of its children's generators).     *)
(*      Empty containers, repaired code (commit 1398c06, Legacy = FALSE):   *)
(*      if the whole structure holds at least one array, an empty dict /    *)
(*      list / tuple yields its empty value without bound (zip stops at the *)
(*      real children); only a structure without any array yields MAX_ITER  *)
(*      empties.  Legacy = TRUE is the generator before the repair (empty   *)
(*      dict / list: MAX_ITER items whatever stands next to them; empty     *)
(*      tuple: zip() of nothing, no item), kept to recognise a regression.  *)
(*                                                                          *)
(* State space: the initial states are the tree shapes; the first step      *)
(* (Pick) chooses (N, operation, parameter) -- split with batch b in 1..N+1,*)
(* mask with any boolean mask, index, or "gen" for event-less trees -- and  *)
(* fills the tree with event ids; Yield / Stop then run the generator.  So  *)
(* states = shapes + cases + generator positions.  Theorems are invariants. *)
(* GenLossless (= the property C18 for splitting, stated about the          *)
(* generator) is a theorem of the repaired model for every tree with a      *)
(* leaf; GenLeafless states the MAX_ITER rule of event-less structures.     *)
(* For Legacy = TRUE, LegacyRelation says exactly where the old generator   *)
(* lost events and TLC refutes GenLossless (regression counterexample).     *)
(* LazyCall *objects* with mutable batch_size, shared inner stages and       *)
(* copy / data_replace siblings are the state machine spec/LazyCall.tla.    *)
EXTENDS Integers, Sequences, FiniteSets, TLC, Json, IOUtils, SequencesExt

CONSTANTS MaxNodes,    \* largest number of nodes of a tree
          MaxN,        \* largest number of events for trees of < MaxNodes nodes
          MaxNBig,     \* largest number of events for trees of MaxNodes nodes
          MAX_ITER,    \* the constant of data_generator (1000 in the code)
          Legacy,      \* TRUE: the generator before commit 1398c06
          Widths       \* leaf widths: 0 = 1-d leaf, w > 0 = 2-d leaf with w columns

VARIABLES cs,          \* the case: [t, d, n, op, b, m] (op = "none": shape chosen only)
          k,           \* number of batches the generator has yielded
          out,         \* the batches yielded so far
          phase        \* "shape" | "run" | "done"
vars == <<cs, k, out, phase>>

Kinds == {"dict", "list", "tuple"}
Min2(a, b) == IF a < b THEN a ELSE b
Leaf(w) == [kind |-> "leaf", w |-> w, ch |-> <<>>, v |-> <<>>]
Cont(kd, ch) == [kind |-> kd, w |-> 0, ch |-> ch, v |-> <<>>]
IsLeaf(d) == d.kind = "leaf"
MapIdx(n, F(_)) == IF n = 0 THEN <<>> ELSE [i \in 1..n |-> F(i)]

--------------------------------------------------------------------------
(* shapes: all trees with exactly n nodes                                   *)
RECURSIVE TreesOf(_), Forest(_)
TreesOf(n) == IF n = 1 THEN {Leaf(w) : w \in Widths} \cup {Cont(kd, <<>>) : kd \in Kinds}
              ELSE {Cont(x[1], x[2]) : x \in Kinds \X Forest(n - 1)}
Forest(m) == IF m = 0 THEN {<<>>}
             ELSE UNION {{<<t>> \o f : t \in TreesOf(j), f \in Forest(m - j)} : j \in 1..m}

RECURSIVE HasLeaf(_), HasEmpty(_, _), NNodes(_)
HasLeaf(t) == IsLeaf(t) \/ \E i \in 1..Len(t.ch) : HasLeaf(t.ch[i])
HasEmpty(t, kds) == (~IsLeaf(t) /\ Len(t.ch) = 0 /\ t.kind \in kds)
                    \/ \E i \in 1..Len(t.ch) : HasEmpty(t.ch[i], kds)
NNodes(t) == IF Len(t.ch) = 0 THEN 1 ELSE
             LET S[i \in 0..Len(t.ch)] == IF i = 0 THEN 1 ELSE S[i - 1] + NNodes(t.ch[i]) IN S[Len(t.ch)]

\* event ids: leaf at position-path prefix pfx holds pfx*100 + e (1-d) or
\* the row <<pfx*100 + 10 e + c>> (2-d); different leaves never share an id
RECURSIVE Fill(_, _, _)
Fill(t, n, pfx) ==
    IF IsLeaf(t)
    THEN [t EXCEPT !.v = IF t.w = 0 THEN MapIdx(n, LAMBDA e : pfx * 100 + e)
                         ELSE MapIdx(n, LAMBDA e : [c \in 1..t.w |-> pfx * 100 + 10 * e + c])]
    ELSE [t EXCEPT !.ch = MapIdx(Len(t.ch), LAMBDA i : Fill(t.ch[i], n, pfx * 8 + i))]

--------------------------------------------------------------------------
(* (1) declarative operations                                               *)
NB(n, b) == (n + b - 1) \div b

RECURSIVE Slice(_, _, _)
Slice(d, lo, hi) ==
    IF IsLeaf(d) THEN [d EXCEPT !.v = SubSeq(d.v, lo, hi)]
    ELSE [d EXCEPT !.ch = MapIdx(Len(d.ch), LAMBDA i : Slice(d.ch[i], lo, hi))]

Split(d, n, b) == MapIdx(NB(n, b), LAMBDA j : Slice(d, (j - 1) * b + 1, Min2(j * b, n)))

\* ps: non-empty sequence of trees of the same shape
RECURSIVE Merge(_)
Merge(ps) ==
    LET h == ps[1] IN
    IF IsLeaf(h) THEN [h EXCEPT !.v = FlattenSeq([i \in 1..Len(ps) |-> ps[i].v])]
    ELSE [h EXCEPT !.ch = MapIdx(Len(h.ch), LAMBDA c : Merge([i \in 1..Len(ps) |-> ps[i].ch[c]]))]

MaskSeq(v, m) ==
    LET F[i \in 0..Len(v)] == IF i = 0 THEN <<>>
                              ELSE IF m[i] THEN Append(F[i - 1], v[i]) ELSE F[i - 1]
    IN F[Len(v)]
RECURSIVE Mask(_, _)
Mask(d, m) ==
    IF IsLeaf(d) THEN [d EXCEPT !.v = MaskSeq(d.v, m)]
    ELSE [d EXCEPT !.ch = MapIdx(Len(d.ch), LAMBDA i : Mask(d.ch[i], m))]

\* paths = sequences of child positions (a dict child is addressed by its key
\* "k<i>", a list / tuple child by the integer i - 1)
RECURSIVE Paths(_), Index(_, _), LeafPaths(_)
Paths(d) == {<<>>} \cup UNION {{<<i>> \o p : p \in Paths(d.ch[i])} : i \in 1..Len(d.ch)}
LeafPaths(d) == IF IsLeaf(d) THEN {<<>>}
                ELSE UNION {{<<i>> \o p : p \in LeafPaths(d.ch[i])} : i \in 1..Len(d.ch)}
Index(d, p) == IF p = <<>> THEN d ELSE Index(d.ch[Head(p)], Tail(p))

\* event-wise functions (the value at event e depends on the entries of
\* event e only)
SumSeq(s) == LET S[i \in 0..Len(s)] == IF i = 0 THEN 0 ELSE S[i - 1] + s[i] IN S[Len(s)]
RECURSIVE EvSum(_, _), NEv(_)
EvSum(d, e) == IF IsLeaf(d) THEN (IF d.w = 0 THEN d.v[e] ELSE SumSeq(d.v[e]))
               ELSE SumSeq(MapIdx(Len(d.ch), LAMBDA i : EvSum(d.ch[i], e)))
\* number of events = length of the first leaf (only used when HasLeaf)
NEv(d) == IF IsLeaf(d) THEN Len(d.v)
          ELSE LET c == CHOOSE i \in 1..Len(d.ch) : HasLeaf(d.ch[i]) /\ \A j \in 1..(i - 1) : ~HasLeaf(d.ch[j])
               IN NEv(d.ch[c])
Vec(s) == [kind |-> "leaf", w |-> 0, ch |-> <<>>, v |-> s]
F1(d) == Vec(MapIdx(NEv(d), LAMBDA e : EvSum(d, e)))                       \* leaf result
F2(d) == Cont("tuple", <<F1(d), Cont("dict", <<Vec(MapIdx(NEv(d), LAMBDA e : 2 * EvSum(d, e) + 1))>>)>>)
F3(d) == Vec(MapIdx(NEv(d), LAMBDA e : 2))                                  \* constant per event
G(d) == SumSeq(F1(d).v)                                                     \* additive over events

BatchCall(F(_), d, n, b) == LET ps == Split(d, n, b) IN Merge(MapIdx(Len(ps), LAMBDA j : F(ps[j])))
BatchSum(d, n, b) == LET ps == Split(d, n, b) IN SumSeq(MapIdx(Len(ps), LAMBDA j : G(ps[j])))

\* LazyCall(f, x) with extra entries: eval = f(x) + extra ; iteration with
\* batch b = f(batch of x) + batch of extra.  f = dict {"s": F1}, extra = dict {"w": ids}
LazyF(d) == Cont("dict", <<F1(d)>>)
Extra(n) == Cont("dict", <<Vec(MapIdx(n, LAMBDA e : 7000 + e))>>)
JoinDict(a, x) == Cont("dict", a.ch \o x.ch)
LazyEval(d, n) == JoinDict(LazyF(d), Extra(n))
\* no extra entry (extra = {}, the default): LazyCall.__iter__ zips the batches
\* of x with _extra_batches().  Repaired code (commit 413e12c): itertools.repeat({}),
\* unbounded; before: split_generator({}) = MAX_ITER empty dicts, so the zip
\* stopped after MAX_ITER batches
LazyLen(n, b) == IF Legacy /\ MAX_ITER < NB(n, b) THEN MAX_ITER ELSE NB(n, b)
LazyIterNoExtra(d, n, b) == LET ps == Split(d, n, b) IN MapIdx(LazyLen(n, b), LAMBDA j : LazyF(ps[j]))
LazyIter(d, n, b) == LET ps == Split(d, n, b)
                         xs == Split(Extra(n), n, b)
                     IN MapIdx(Len(ps), LAMBDA j : JoinDict(LazyF(ps[j]), xs[j]))

--------------------------------------------------------------------------
(* (2) the generator of data_generator, implementation shaped               *)
\* can the generator of node d deliver its item number j (0-based)?
\* inf: the root structure holds at least one array (the code's _has_leaf(data))
RECURSIVE CanYield(_, _, _, _), Item(_, _, _), GenLenOf(_, _, _, _)
EmptyAvail(kind, j, inf, legacy) ==
    IF legacy THEN (IF kind = "tuple" THEN FALSE              \* zip() of nothing
                    ELSE j < MAX_ITER)                        \* for i in range(MAX_ITER): yield {}
    ELSE (IF inf THEN TRUE                                    \* for i in itertools.count(): yield {}
          ELSE j < MAX_ITER)                                  \* for i in range(MAX_ITER): yield {}
CanYield(d, j, b, inf) ==
    IF IsLeaf(d) THEN j * b < Len(d.v)                      \* range(0, N, b)
    ELSE IF Len(d.ch) = 0 THEN EmptyAvail(d.kind, j, inf, Legacy)
         ELSE \A i \in 1..Len(d.ch) : CanYield(d.ch[i], j, b, inf)   \* zip(*children)
Item(d, j, b) ==
    IF IsLeaf(d) THEN [d EXCEPT !.v = SubSeq(d.v, j * b + 1, Min2((j + 1) * b, Len(d.v)))]
    ELSE [d EXCEPT !.ch = MapIdx(Len(d.ch), LAMBDA i : Item(d.ch[i], j, b))]
\* closed form of the number of items; -1 = unbounded
MinLen(x, y) == IF x = -1 THEN y ELSE IF y = -1 THEN x ELSE Min2(x, y)
GenLenOf(d, b, inf, legacy) ==
    IF IsLeaf(d) THEN NB(Len(d.v), b)
    ELSE IF Len(d.ch) = 0
         THEN (IF legacy THEN (IF d.kind = "tuple" THEN 0 ELSE MAX_ITER)
               ELSE (IF inf THEN -1 ELSE MAX_ITER))
    ELSE LET M[i \in 1..Len(d.ch)] == IF i = 1 THEN GenLenOf(d.ch[1], b, inf, legacy)
                                      ELSE MinLen(M[i - 1], GenLenOf(d.ch[i], b, inf, legacy))
         IN M[Len(d.ch)]
\* of a whole structure (root), in the mode of this run / before the repair
GenLen(d, b) == GenLenOf(d, b, HasLeaf(d), Legacy)
LegacyGenLen(d, b) == GenLenOf(d, b, HasLeaf(d), TRUE)

--------------------------------------------------------------------------
(* the case space                                                           *)
Shapes == UNION {TreesOf(n) : n \in 1..MaxNodes}
NMax(t) == IF NNodes(t) = MaxNodes THEN MaxNBig ELSE MaxN
Masks(n) == [1..n -> BOOLEAN]
Case(t, n, op, b, m) == [t |-> t, d |-> Fill(t, n, 1), n |-> n, op |-> op, b |-> b, m |-> m]
CasesOf(t) ==
    IF HasLeaf(t)
    THEN UNION {
           {Case(t, n, "split", b, <<>>) : b \in 1..(n + 1)}
           \cup {Case(t, n, "mask", 0, m) : m \in Masks(n)}
           \cup {Case(t, n, "index", 0, <<>>)} : n \in 1..NMax(t)}
    ELSE {Case(t, 1, "gen", 1, <<>>)}                       \* no events: generator model only

\* two-level choice: the initial states are the shapes, the first step picks
\* (N, operation, parameter); then the generator runs for split / gen cases
Init == /\ \E t \in Shapes : cs = [t |-> t, d |-> t, n |-> 0, op |-> "none", b |-> 0, m |-> <<>>]
        /\ k = 0 /\ out = <<>> /\ phase = "shape"

Choose(c) == /\ phase = "shape"
             /\ cs' = c
             /\ phase' = IF c.op \in {"split", "gen"} THEN "run" ELSE "done"
             /\ UNCHANGED <<k, out>>

Yield == /\ phase = "run"
         /\ CanYield(cs.d, k, cs.b, HasLeaf(cs.t))
         /\ out' = Append(out, Item(cs.d, k, cs.b))
         /\ k' = k + 1
         /\ UNCHANGED <<cs, phase>>
Stop == /\ phase = "run"
        /\ ~CanYield(cs.d, k, cs.b, HasLeaf(cs.t))
        /\ phase' = "done"
        /\ UNCHANGED <<cs, k, out>>
Pick == phase = "shape" /\ \E c \in CasesOf(cs.t) : Choose(c)
Next == Pick \/ Yield \/ Stop
Spec == Init /\ [][Next]_vars

--------------------------------------------------------------------------
(* theorems                                                                 *)
IsSplit == cs.op = "split"
TheSplit == Split(cs.d, cs.n, cs.b)

\* (theorems about the case alone are evaluated once per case: when its
\* generator run has finished)
SplitDone == IsSplit /\ phase = "done"

\* Merge o Split = id, and the pieces have the advertised sizes
SplitMerge == SplitDone =>
    LET ps == TheSplit IN
    /\ Len(ps) = NB(cs.n, cs.b) /\ Len(ps) >= 1
    /\ Merge(ps) = cs.d
    /\ \A j \in 1..Len(ps) : \A p \in LeafPaths(cs.d) :
          Len(Index(ps[j], p).v) = IF j < Len(ps) THEN cs.b ELSE cs.n - (Len(ps) - 1) * cs.b
    /\ \A j \in 1..Len(ps) : Index(ps[j], <<>>).kind = cs.d.kind

\* batch-wise application = application to the whole sample
BatchCallWhole == SplitDone =>
    /\ BatchCall(F1, cs.d, cs.n, cs.b) = F1(cs.d)
    /\ BatchCall(F2, cs.d, cs.n, cs.b) = F2(cs.d)
    /\ BatchCall(F3, cs.d, cs.n, cs.b) = F3(cs.d)
    /\ BatchSum(cs.d, cs.n, cs.b) = G(cs.d)
    /\ Merge(LazyIter(cs.d, cs.n, cs.b)) = LazyEval(cs.d, cs.n)

\* LazyCall without extra entries: every batch of x is delivered (repaired
\* model); the legacy model stops after MAX_ITER batches
LazyNoExtra == SplitDone =>
    LET it == LazyIterNoExtra(cs.d, cs.n, cs.b) IN
    IF ~Legacy \/ NB(cs.n, cs.b) <= MAX_ITER
    THEN Len(it) = NB(cs.n, cs.b) /\ Merge(it) = LazyF(cs.d)
    ELSE Len(it) = MAX_ITER /\ Len(it) < NB(cs.n, cs.b)

\* Mask: independent characterisation (set of kept entries, order, shape)
MaskExact == cs.op = "mask" =>
    LET r == Mask(cs.d, cs.m)
        kept == {i \in 1..cs.n : cs.m[i]} IN
    /\ Paths(r) = Paths(cs.d)
    /\ \A p \in Paths(cs.d) : Index(r, p).kind = Index(cs.d, p).kind
    /\ \A p \in LeafPaths(cs.d) :
         LET a == Index(cs.d, p).v
             x == Index(r, p).v IN
         /\ Len(x) = Cardinality(kept)
         /\ {x[i] : i \in 1..Len(x)} = {a[i] : i \in kept}
         /\ \A i, j \in 1..Len(x) : i < j =>
               (CHOOSE e \in 1..cs.n : a[e] = x[i]) < (CHOOSE e \in 1..cs.n : a[e] = x[j])
    \* masking commutes with splitting off a prefix / suffix of the events
    /\ \A c \in 0..cs.n :
         Merge(<<Mask(Slice(cs.d, 1, c), SubSeq(cs.m, 1, c)),
                 Mask(Slice(cs.d, c + 1, cs.n), SubSeq(cs.m, c + 1, cs.n))>>) = r

LeafIds(l) == IF l.w = 0 THEN {l.v[e] : e \in 1..Len(l.v)}
              ELSE UNION {{l.v[e][c] : c \in 1..l.w} : e \in 1..Len(l.v)}
\* Index commutes with Slice; every leaf is reachable and carries its own ids
IndexExact == cs.op = "index" =>
    /\ \A p \in Paths(cs.d) : \A lo \in 1..cs.n :
          Index(Slice(cs.d, lo, cs.n), p) = Slice(Index(cs.d, p), lo, cs.n)
    /\ \A p, q \in LeafPaths(cs.d) : p # q =>
          LeafIds(Index(cs.d, p)) \cap LeafIds(Index(cs.d, q)) = {}
    /\ \A p \in LeafPaths(cs.d) :
          Cardinality(LeafIds(Index(cs.d, p))) = cs.n * (IF Index(cs.d, p).w = 0 THEN 1 ELSE Index(cs.d, p).w)
    /\ Cardinality(Paths(cs.d)) = NNodes(cs.d)

\* the step machine against its closed form, at every step
GenPrefix == cs.op \in {"split", "gen"} =>
    /\ GenLen(cs.d, cs.b) >= 0                                  \* a whole structure never runs unbounded
    /\ Len(out) = k /\ k <= GenLen(cs.d, cs.b)
    /\ (phase = "done" => k = GenLen(cs.d, cs.b))
    /\ (IsSplit => k <= NB(cs.n, cs.b) /\ out = SubSeq(TheSplit, 1, k))
    /\ (cs.op = "gen" => \A j \in 1..k : out[j] = cs.d)

\* the property C18 for splitting, as a statement about the generator:
\* a theorem of the repaired model (Legacy = FALSE); refuted for Legacy = TRUE
GenLossless == (IsSplit /\ phase = "done") => out = TheSplit

\* a structure without any array: MAX_ITER copies of itself (repaired model;
\* empty tuples included)
GenLeafless == (~Legacy /\ cs.op = "gen" /\ phase = "done") => k = MAX_ITER

\* where the generator before the repair equalled Split, and what it did otherwise
Lossless(c) == /\ ~HasEmpty(c.t, {"tuple"})
               /\ (HasEmpty(c.t, {"dict", "list"}) => NB(c.n, c.b) <= MAX_ITER)
LegacyRelation == (Legacy /\ IsSplit /\ phase = "done") =>
    IF Lossless(cs) THEN out = TheSplit
    ELSE /\ k < NB(cs.n, cs.b)                                   \* events are lost
         /\ k = IF HasEmpty(cs.t, {"tuple"}) THEN 0 ELSE MAX_ITER
\* the closed forms of the two models agree exactly on the Lossless cases
ModelsAgree == IsSplit => (Lossless(cs) <=> LegacyGenLen(cs.d, cs.b) = GenLenOf(cs.d, cs.b, TRUE, FALSE))

TypeOK == /\ phase \in {"shape", "run", "done"} /\ k \in 0..(MAX_ITER + MaxN + MaxNBig + 1)
          /\ cs.op \in {"none", "split", "mask", "index", "gen"}
          /\ NNodes(cs.t) <= MaxNodes

--------------------------------------------------------------------------
(* tables for the conformance harness                                       *)
CaseOut(c) ==
    IF c.op = "split" THEN
       [op |-> c.op, t |-> c.t, n |-> c.n, b |-> c.b,
        pieces |-> Split(c.d, c.n, c.b),
        genlen |-> GenLen(c.d, c.b),
        legacy_genlen |-> LegacyGenLen(c.d, c.b),
        legacy_lossless |-> Lossless(c),
        f1 |-> F1(c.d), f2 |-> F2(c.d), f3 |-> F3(c.d), g |-> G(c.d),
        lazy |-> LazyEval(c.d, c.n), lazy0 |-> LazyF(c.d), lazylen |-> LazyLen(c.n, c.b)]
    ELSE IF c.op = "mask" THEN
       [op |-> c.op, t |-> c.t, n |-> c.n, m |-> c.m, r |-> Mask(c.d, c.m)]
    ELSE IF c.op = "index" THEN
       [op |-> c.op, t |-> c.t, n |-> c.n, d |-> c.d,
        idx |-> {<<p, Index(c.d, p)>> : p \in Paths(c.d)}]
    ELSE [op |-> c.op, t |-> c.t, n |-> c.n, b |-> c.b, genlen |-> GenLen(c.d, c.b),
          legacy_genlen |-> LegacyGenLen(c.d, c.b)]

\* (AllCases takes a dummy argument so that TLC does not evaluate it eagerly
\* at start-up; it is only needed for the table)
AllCases(dummy) == UNION {CasesOf(t) : t \in Shapes}
Post ==
    /\ TLCGet("stats").diameter >= 0
    /\ LET all == AllCases(0) IN
       JsonSerialize(IOEnv.OUT_FILE,
         [max_iter |-> MAX_ITER, legacy |-> Legacy, ncases |-> Cardinality(all),
          nshapes |-> Cardinality(Shapes),
          cases |-> {CaseOut(c) : c \in all}])

--------------------------------------------------------------------------
(* code -> spec (B2): recorded calls of data_split, validated by TLC        *)
\* record: [t |-> shape (JSON), n, b, npieces, lens |-> first-leaf length of every piece]
RECURSIVE AsTree(_)
AsTree(j) == [kind |-> j.kind, w |-> j.w, v |-> <<>>,
              ch |-> MapIdx(Len(j.ch), LAMBDA i : AsTree(j.ch[i]))]
Recorded == JsonDeserialize(IOEnv.IN_FILE)
RecVerdict(r) ==
    LET t == AsTree(r.t)
        d == Fill(t, r.n, 1)
        ps == Split(d, r.n, r.b) IN
    [npieces |-> Len(ps),
     ok |-> /\ Len(ps) = r.npieces
            /\ \A j \in 1..Len(ps) : Len(Index(ps[j], r.leaf).v) = r.lens[j],
     pieces |-> ps]
RecPost ==
    /\ TLCGet("stats").diameter >= 0
    /\ JsonSerialize(IOEnv.OUT_FILE, [verdicts |-> [i \in 1..Len(Recorded) |-> RecVerdict(Recorded[i])]])
RecInit == cs = Case(Leaf(0), 1, "index", 0, <<>>) /\ k = 0 /\ out = <<>> /\ phase = "done"
Stutter == UNCHANGED vars
==========================================================================
