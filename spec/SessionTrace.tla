--------------------------- MODULE SessionTrace ---------------------------
(* Trace validation (binding B2, code -> spec) for Session.tla, property C17. *)
(*                                                                           *)
(* IN_FILE: {"traces": [T1, T2, ...]} recorded by harness/session_trace.py   *)
(* from executions of the real tf_pwa code that the library (or a random     *)
(* user session) composes itself: every override block and every derived     *)
(* computation of the library is wrapped at run time (no change to the       *)
(* repository) and logs one record per Session action AFTER the state change *)
(*                                                                           *)
(*   T  = [name, silent, init |-> st, ev |-> <<e1, e2, ...>>]                *)
(*   e  = [a |-> action name, st |-> projected state after the step, ...]    *)
(*   st = [p, maskv, active, notFull, maskFactor, cfg, polar, bnd, dens]     *)
(*        p / maskv / cfg / dens are small integers: values interned per     *)
(*        trace by first appearance (0 = no mask entry / density not taken); *)
(*        active = the chain ids 1..K in DecayGroup.chains_idx               *)
(*                                                                           *)
(* Idiom: IsEvent(a) /\ SessionAction(args from the record) /\ the successor *)
(* state of the specification projects to the logged state.  Every record    *)
(* determines its successor, so each trace is one path (plus bounded silent  *)
(* CompSteps when the recorder declares that inner evaluations are not       *)
(* logged).  Many traces per run: tid is chosen in TraceInit.  Run with      *)
(* -workers 1: register tid holds the longest matched prefix and the last    *)
(* specification state, register NT + tid the reason why the next record     *)
(* was refused (fields that differ / invariant of Session that fails in the  *)
(* successor).  TracePost writes the registers; the harness decides.         *)
(*                                                                           *)
(* Generalisations of Session actions that real executions need (each is the *)
(* Session action when its extra argument takes the value Session fixes):    *)
(*   StartPartialWeightG(todo)   partial_weight(combine=...)                 *)
(*   StartPlotWeightsG(todo)     PlotAllData(res=...) with any list          *)
(*   StartFitFractionsG(ss, n)   a resonance that occurs in several chains   *)
(*   StartFactorIterationG(o)    iteration order of chains_idx from the log  *)
(*   RaiseN(n)                   an exception caught before it reaches the   *)
(*                               top level unwinds only the n innermost      *)
(*                               frames (Raise = RaiseN(Len(stack)))         *)
(*   ExitOuter(k, exc)           Python lets a suspended generator outlive   *)
(*                               an enclosing block: a frame that is not the *)
(*                               innermost one is left                       *)
EXTENDS Session, Json, IOUtils

VARIABLES tid, l, dtab
tvars == <<vars, tid, l, dtab>>

Traces == JsonDeserialize(IOEnv.IN_FILE).traces
NT == Len(Traces)
Tr == Traces[tid]
Ev == Tr.ev[l]
IsEvent(a) == l <= Len(Tr.ev) /\ Ev.a = a

V(x) == IF x = 0 THEN None ELSE x
RangeOf(s) == {s[i] : i \in DOMAIN s}
AscSeq(S) == SetToSortSeq(S, LAMBDA a, b : a < b)

ModelOf(st) == [p |-> st.p, bnd |-> st.bnd, maskv |-> V(st.maskv), maskFactor |-> st.maskFactor, cfg |-> st.cfg,
                sel |-> AscSeq(RangeOf(st.active)), notFull |-> st.notFull, polar |-> st.polar]

\* the projection of a specification model state, compared field by field with a logged state
Mismatch(s, st) ==
    (IF s.p = st.p THEN {} ELSE {"p"})
    \cup (IF s.maskv = V(st.maskv) THEN {} ELSE {"maskv"})
    \cup (IF Active(s.sel) = RangeOf(st.active) THEN {} ELSE {"active"})
    \cup (IF s.notFull = st.notFull THEN {} ELSE {"notFull"})
    \cup (IF s.maskFactor = st.maskFactor THEN {} ELSE {"maskFactor"})
    \cup (IF s.cfg = st.cfg THEN {} ELSE {"cfg"})
    \cup (IF s.polar = st.polar THEN {} ELSE {"polar"})
    \cup (IF s.bnd = st.bnd THEN {} ELSE {"bnd"})

\* the density of the probe events is a function of what a user can read
Key(s) == <<s.p, s.maskv, Active(s.sel), s.maskFactor>>
DensOK(s, st) == st.dens = 0 \/ \A x \in dtab : x[1] = Key(s) => x[2] = st.dens

\* invariants of Session in the successor state (also listed as INVARIANTs in the cfg)
InvBad == (IF Transparent' THEN {} ELSE {"inv:Transparent"})
          \cup (IF NotFullHonest' THEN {} ELSE {"inv:NotFullHonest"})
          \cup (IF SelectionSound' THEN {} ELSE {"inv:SelectionSound"})

Reg(n) == IF n > TLCGet(tid)[1]
          THEN TLCSet(tid, <<n, ToString(m'), ToString(stack'), ToString(base')>>)
          ELSE TRUE
Diag(bad, extra) == IF l >= TLCGet(NT + tid)[1]
                    THEN TLCSet(NT + tid, <<l, ToString(bad), ToString(m'), ToString(stack'), extra>>)
                    ELSE TRUE

\* last conjunct of every trace action: m', stack', base' are determined by the Session action
\* relaxNF: inside a computation DecayGroup.not_full with every chain selected depends on whether the selection
\* was requested by names (FALSE) or by chain indices (TRUE, set_used_chains([]) + add_used_chains); Session.tla
\* fixes one reading per computation kind, the epilogue recomputes the flag: not compared in that one case
PostG(st, extraBad, extra, relaxNF) ==
    LET mm == Mismatch(m', st)
        bad == (IF relaxNF /\ Active(m'.sel) = Chains THEN mm \ {"notFull"} ELSE mm)
               \cup (IF DensOK(m', st) THEN {} ELSE {"dens"}) \cup InvBad \cup extraBad IN
    IF bad = {}
    THEN /\ l' = l + 1 /\ tid' = tid
         /\ dtab' = (IF st.dens = 0 THEN dtab ELSE dtab \cup {<<Key(m'), st.dens>>})
         /\ Reg(l)
    ELSE Diag(bad, extra) /\ FALSE
PostX(st, extraBad, extra) == PostG(st, extraBad, extra, FALSE)
Post == PostX(Ev.st, {}, "")
PostInComp == PostG(Ev.st, {}, "", TRUE)

--------------------------------------------------------------------------
TraceInit ==
    /\ tid \in 1..NT
    /\ l = 1
    /\ m = ModelOf(Tr.init)
    /\ stack = <<>> /\ base = Proj(m) /\ seen = FALSE /\ graph = {} /\ depth = 0
    /\ dtab = (IF Tr.init.dens = 0 THEN {} ELSE {<<Key(m), Tr.init.dens>>})
    /\ TLCSet(tid, <<0, ToString(m), "<<>>", ToString(base)>>)
    /\ TLCSet(NT + tid, <<0, "{}", "", "", "">>)

--------------------------------------------------------------------------
\* deliberate changes at top level
TrUserSetParam == IsEvent("UserSetParam") /\ UserSetParam(Ev.st.p) /\ Post
TrUserSetChains == IsEvent("UserSetChains") /\ UserSetChains(Ev.q) /\ Post
TrUserSetRes == IsEvent("UserSetRes") /\ UserSetRes(RangeOf(Ev.q)) /\ Post
TrUserSetBound == IsEvent("UserSetBound") /\ UserSetBound(Ev.st.bnd) /\ Post
TrUserCoord == IsEvent("UserCoord") /\ UserCoord(Ev.st.polar) /\ Post

\* override blocks
TrEnterTempParamsAmp == IsEvent("EnterTempParamsAmp") /\ EnterTempParamsAmp(Ev.st.p) /\ Post
TrEnterTempParamsVM == IsEvent("EnterTempParamsVM") /\ EnterTempParamsVM(Ev.st.p) /\ Post
TrEnterTempVar == IsEvent("EnterTempVar") /\ EnterTempVar /\ Post
TrInnerSetParam == IsEvent("InnerSetParam") /\ InnerSetParam(Ev.st.p) /\ Post
TrEnterMask == IsEvent("EnterMask") /\ EnterMask(V(Ev.st.maskv)) /\ Post
TrEnterTempUsedRes == IsEvent("EnterTempUsedRes") /\ EnterTempUsedRes(RangeOf(Ev.q)) /\ Post
TrEnterGlsOne == IsEvent("EnterGlsOne") /\ EnterGlsOne /\ Post
TrEnterTempConfig == IsEvent("EnterTempConfig") /\ EnterTempConfig(Ev.st.cfg) /\ Post

--------------------------------------------------------------------------
\* derived computations
SetsOf(q) == [i \in DOMAIN q |-> RangeOf(q[i])]

StartPartialWeightG(todo) ==
    /\ Tick /\ Interleavable
    /\ Push(CompFrame("partial_weight", m.sel, todo))
    /\ UNCHANGED <<m, base>> /\ KeepCache
TrStartPartialWeight == IsEvent("StartPartialWeight") /\ Ev.todo = Singles /\ StartPartialWeight /\ Post
TrStartPartialWeightG == IsEvent("StartPartialWeight") /\ Ev.todo # Singles /\ StartPartialWeightG(Ev.todo) /\ Post

TrStartInterference == IsEvent("StartInterference") /\ StartInterference /\ Post

\* fit fractions of resonances given as chain sets ss[i] (a resonance may occur in several chains)
FFTodoG(ss) ==
    LET n == Len(ss)
        RECURSIVE Row(_, _)
        Row(i, j) == IF j < 1 THEN <<>>
                     ELSE <<IF i = j THEN ss[i] ELSE ss[i] \cup ss[j]>> \o Row(i, j - 1)
        RECURSIVE Rows(_)
        Rows(i) == IF i > n THEN <<>> ELSE Row(i, i) \o Rows(i + 1)
    IN Rows(1)
StartFitFractionsG(ss, isNew) ==
    /\ Tick /\ Interleavable
    /\ Push(CompFrame("fit_fractions", m.sel, FFTodoG(ss)))
    /\ m' = SetUsedResNames(m, UNION {ss[i] : i \in DOMAIN ss})
    /\ UNCHANGED base /\ KeepCache
OneChainEach(q) == \A i \in DOMAIN q : Len(q[i]) = 1
TrStartFitFractions ==
    /\ IsEvent("StartFitFractions") /\ OneChainEach(Ev.res)
    /\ StartFitFractions([i \in DOMAIN Ev.res |-> Ev.res[i][1]], Ev.isNew) /\ PostInComp
TrStartFitFractionsG ==
    /\ IsEvent("StartFitFractions") /\ ~OneChainEach(Ev.res)
    /\ StartFitFractionsG(SetsOf(Ev.res), Ev.isNew) /\ PostInComp

PlotTodo == [i \in 1..K |-> {i}] \o <<Chains>>
StartPlotWeightsG(todo) ==
    /\ Tick /\ Interleavable
    /\ Push(CompFrame("plot_weights", m.sel, todo))
    /\ UNCHANGED <<m, base>> /\ KeepCache
TrStartPlotWeights == IsEvent("StartPlotWeights") /\ SetsOf(Ev.todo) = PlotTodo /\ StartPlotWeights /\ Post
TrStartPlotWeightsG == IsEvent("StartPlotWeights") /\ SetsOf(Ev.todo) # PlotTodo /\ StartPlotWeightsG(SetsOf(Ev.todo)) /\ Post

StartFactorIterationG(order) ==
    /\ Tick /\ Interleavable
    /\ RangeOf(order) = Active(m.sel)
    /\ Push(CompFrame("factor_iteration", m.sel, [i \in DOMAIN order |-> <<order[i]>>]))
    /\ UNCHANGED <<m, base>> /\ KeepCache
TrStartFactorIteration == IsEvent("StartFactorIteration") /\ Ev.order = m.sel /\ StartFactorIteration /\ Post
TrStartFactorIterationG == IsEvent("StartFactorIteration") /\ Ev.order # m.sel /\ StartFactorIterationG(Ev.order) /\ Post

TrCompStep == IsEvent("CompStep") /\ CompStep /\ PostInComp
\* inner evaluations that the recorder did not log: at most todo-many before the next record
TrSilentCompStep == l <= Len(Tr.ev) /\ Tr.silent /\ CompStep /\ UNCHANGED <<tid, l, dtab>>

--------------------------------------------------------------------------
\* leaving blocks and computations; every record names the frame it leaves (position, kind)
FrameIs(k, kind) == k \in 1..Len(stack) /\ stack[k].kind = kind
DropAt(s, k) == SubSeq(s, 1, k - 1) \o SubSeq(s, k + 1, Len(s))

TrExitNormal == IsEvent("ExitNormal") /\ Ev.pos = Len(stack) /\ FrameIs(Ev.pos, Ev.kind) /\ ExitNormal /\ Post
TrAbandon == IsEvent("Abandon") /\ Ev.pos = Len(stack) /\ FrameIs(Ev.pos, Ev.kind) /\ Abandon /\ Post

ExitOuter(k, isExc) ==
    /\ Tick /\ k \in 1..(Len(stack) - 1)
    /\ m' = (IF isExc /\ ~Finally THEN m ELSE Restore(stack[k], m))
    /\ stack' = DropAt(stack, k)
    /\ UNCHANGED base /\ KeepCache
TrExitOuter ==
    /\ IsEvent("ExitNormal") \/ IsEvent("ExitOuterExc")
    /\ Ev.pos < Len(stack) /\ FrameIs(Ev.pos, Ev.kind)
    /\ ExitOuter(Ev.pos, Ev.a = "ExitOuterExc") /\ Post

\* an exception unwinds the n innermost frames; sts[i] = logged state after i frames were left
TopFrames(i) == SubSeq(stack, Len(stack) - i + 1, Len(stack))
RaiseGuard == LET f == stack[Len(stack)] IN (f.kind \in AtomicKinds /\ f.kind \notin {"fit_fractions", "plot_weights"}) => f.done >= 1
RaiseN(n) ==
    /\ Tick /\ n \in 1..Len(stack)
    /\ m' = Unwind(TopFrames(n), m)
    /\ stack' = SubSeq(stack, 1, Len(stack) - n)
    /\ UNCHANGED base /\ KeepCache
KindsOK == /\ Ev.n \in 1..Len(stack) /\ Len(Ev.kinds) = Ev.n
           /\ \A i \in 1..Ev.n : stack[Len(stack) - i + 1].kind = Ev.kinds[i]
InterBad == {i \in 1..(Ev.n - 1) : Mismatch(Unwind(TopFrames(i), m), Ev.sts[i]) # {}}
InterDiag == IF InterBad = {} THEN ""
             ELSE LET i == CHOOSE j \in InterBad : \A k \in InterBad : j <= k
                  IN ToString(<<i, Mismatch(Unwind(TopFrames(i), m), Ev.sts[i])>>)
TrRaise ==
    /\ IsEvent("Raise") /\ KindsOK /\ Ev.n = Len(stack) /\ RaiseGuard
    /\ Raise
    /\ PostX(Ev.st, IF InterBad = {} THEN {} ELSE {"inner"}, InterDiag)
TrRaiseN ==
    /\ IsEvent("Raise") /\ KindsOK /\ ~(Ev.n = Len(stack) /\ RaiseGuard)
    /\ RaiseN(Ev.n)
    /\ PostX(Ev.st, IF InterBad = {} THEN {} ELSE {"inner"}, InterDiag)

--------------------------------------------------------------------------
TraceNext ==
    \/ TrUserSetParam \/ TrUserSetChains \/ TrUserSetRes \/ TrUserSetBound \/ TrUserCoord
    \/ TrEnterTempParamsAmp \/ TrEnterTempParamsVM \/ TrEnterTempVar \/ TrInnerSetParam
    \/ TrEnterMask \/ TrEnterTempUsedRes \/ TrEnterGlsOne \/ TrEnterTempConfig
    \/ TrStartPartialWeight \/ TrStartPartialWeightG \/ TrStartInterference
    \/ TrStartFitFractions \/ TrStartFitFractionsG \/ TrStartPlotWeights \/ TrStartPlotWeightsG
    \/ TrStartFactorIteration \/ TrStartFactorIterationG
    \/ TrCompStep \/ TrSilentCompStep
    \/ TrExitNormal \/ TrAbandon \/ TrExitOuter \/ TrRaise \/ TrRaiseN

\* the generalised actions are the Session actions for the arguments Session fixes
\* (checked by TLC as an invariant over every reached state of every trace)
GeneralisationsAgree ==
    /\ FFTodoG([i \in 1..K |-> {i}]) = FFTodo([i \in 1..K |-> i])
    /\ stack # <<>> => Unwind(TopFrames(Len(stack)), m) = Unwind(stack, m)

TracePost ==
    LET d == TLCGet("stats").diameter IN
    JsonSerialize(IOEnv.OUT_FILE,
        [diameter |-> d, traces |-> NT,
         lens |-> [t \in 1..NT |-> Len(Traces[t].ev)],
         reg |-> [t \in 1..NT |-> TLCGet(t)],
         diag |-> [t \in 1..NT |-> TLCGet(NT + t)]])
=============================================================================
