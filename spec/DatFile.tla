----------------------------- MODULE DatFile -----------------------------
(* Momentum files of tf_pwa (tf_pwa/data.py:300-364 load_dat_file,          *)
(* tf_pwa/cal_angle.py:115-135 CalAngleData.savetxt,                        *)
(* tf_pwa/config_loader/data.py:378-397 SimpleData.savetxt, get_dat_order). *)
(*                                                                          *)
(* A sample = n particles x N events x 4 components.  A file is a sequence  *)
(* of rows of 4 numbers.  dat_order (a permutation) says which particle     *)
(* sits in which column slot; the slots are distributed over one or more    *)
(* files by consecutive groups (a composition of n).                        *)
(*                                                                          *)
(*  Save   : declarative layout  Row(e, k) = e * g + k  (event major, the   *)
(*           default) or Row(k, e) = k * N + e (particle major, read with   *)
(*           order = (0, 1, 2) and split = N)                               *)
(*  Load   : implementation shaped, one step per file of load_dat_file      *)
(*           on the files the Write step put on disk                        *)
(*           (sizes -> inferred split -> reshape -> transpose -> hand the   *)
(*           slabs to the particles in dat_order)                           *)
(* Theorem : Load(Save(p)) = p with the same particle assignment, for every *)
(*           n, N, composition, permutation and layout.                     *)
(* The configuration-level cached-data file (sessions, weight scaling       *)
(* applied exactly once on the file path and on the cached path) is the     *)
(* state machine spec/CachedData.tla.                                       *)
EXTENDS Integers, Sequences, FiniteSets, TLC, Json, IOUtils

CONSTANTS MaxP,     \* largest number of particles
          MaxEv     \* largest number of events

VARIABLES cs,       \* the case [n, N, groups, perm, layout]
          files,    \* what the writer put on disk: sequence of files, each a sequence of rows
          fi,       \* next file to load (1-based); 0 = nothing written yet
          idx,      \* number of column slots already handed out (the code's idx)
          ret,      \* particle id -> sequence (events) of rows ; <<>> = not yet loaded
          err       \* load_dat_file raised
vars == <<cs, files, fi, idx, ret, err>>

MapIdx(n, F(_)) == IF n = 0 THEN <<>> ELSE [i \in 1..n |-> F(i)]
SumSeq(s) == LET S[i \in 0..Len(s)] == IF i = 0 THEN 0 ELSE S[i - 1] + s[i] IN S[Len(s)]
Off(g, j) == SumSeq(SubSeq(g, 1, j - 1))

\* the momentum of particle q in event e: four distinct ids
P4(q, e) == [c \in 1..4 |-> q * 1000 + e * 10 + c]
Sample(n, N) == [q \in 1..n |-> [e \in 1..N |-> P4(q, e)]]

RECURSIVE Comp(_)
Comp(m) == IF m = 0 THEN {<<>>} ELSE UNION {{<<j>> \o c : c \in Comp(m - j)} : j \in 1..m}
Perms(n) == {f \in [1..n -> 1..n] : \A a, b \in 1..n : a # b => f[a] # f[b]}

Layouts == {"event_major", "particle_major"}
\* the initial states fix everything but dat_order; the first step (Write)
\* picks the permutation and writes the files
Frames == UNION {UNION {
            {[n |-> n, N |-> N, groups |-> g, perm |-> <<>>, layout |-> lay] : g \in Comp(n), lay \in Layouts}
            : N \in 1..MaxEv} : n \in 1..MaxP}
CasesOf(fr) == {[fr EXCEPT !.perm = pm] : pm \in Perms(fr.n)}
AllCases(dummy) == UNION {CasesOf(fr) : fr \in Frames}

--------------------------------------------------------------------------
(* Save: the declarative layout                                             *)
\* slot s (1..n) of the concatenated column groups holds particle perm[s]
SaveFile(c, j) ==
    LET g == c.groups[j]
        o == Off(c.groups, j)
        p == Sample(c.n, c.N) IN
    IF c.layout = "event_major"
    THEN [r \in 1..(c.N * g) |-> p[c.perm[o + ((r - 1) % g) + 1]][((r - 1) \div g) + 1]]
    ELSE [r \in 1..(g * c.N) |-> p[c.perm[o + ((r - 1) \div c.N) + 1]][((r - 1) % c.N) + 1]]
Save(c) == [j \in 1..Len(c.groups) |-> SaveFile(c, j)]

\* Row(e, k) = e * g + k, zero based, is a bijection onto the rows
RowLayout(c) == \A j \in 1..Len(c.groups) :
    LET g == c.groups[j]
        f == SaveFile(c, j) IN
    /\ Len(f) = c.N * g
    /\ \A e \in 0..(c.N - 1) : \A kk \in 0..(g - 1) :
          f[(IF c.layout = "event_major" THEN e * g + kk ELSE kk * c.N + e) + 1]
             = P4(c.perm[Off(c.groups, j) + kk + 1], e + 1)

--------------------------------------------------------------------------
(* Load: load_dat_file, one step per file                                   *)
Sizes == [j \in 1..Len(files) |-> Len(files[j])]
NTotal == SumSeq(Sizes)
\* split = None: inferred from the file sizes; particle-major files need it given
SplitOf(c) == IF c.layout = "event_major"
              THEN [j \in 1..Len(files) |-> Sizes[j] \div (NTotal \div c.n)]
              ELSE [j \in 1..Len(files) |-> c.N]
Particles == cs.perm                   \* the list handed to load_dat_file

Init == /\ cs \in Frames
        /\ files = <<>>
        /\ fi = 0 /\ idx = 0 /\ err = FALSE
        /\ ret = [q \in 1..cs.n |-> <<>>]

Write(c) == /\ fi = 0
            /\ cs' = c
            /\ files' = Save(c)
            /\ fi' = 1
            /\ UNCHANGED <<idx, ret, err>>

Raise == /\ fi = 1 /\ ~err
         /\ cs.layout = "event_major" /\ NTotal % cs.n # 0     \* "number of data find"
         /\ err' = TRUE
         /\ UNCHANGED <<cs, files, fi, idx, ret>>

LoadFile ==
    /\ ~err /\ fi >= 1 /\ fi <= Len(files)
    /\ ~(fi = 1 /\ cs.layout = "event_major" /\ NTotal % cs.n # 0)
    /\ LET size == SplitOf(cs)[fi]
           rows == files[fi]
           na == Len(rows) \div size                           \* reshape((-1, size, 4))
           d1 == [a \in 1..na |-> [b \in 1..size |-> rows[(a - 1) * size + b]]]
           d2 == IF cs.layout = "event_major"
                 THEN [b \in 1..size |-> [a \in 1..na |-> d1[a][b]]]   \* transpose (1, 0, 2)
                 ELSE d1                                            \* order (0, 1, 2)
       IN /\ idx + Len(d2) <= cs.n                               \* else IndexError
          /\ ret' = [q \in 1..cs.n |->
                       IF \E i \in 1..Len(d2) : Particles[idx + i] = q
                       THEN d2[CHOOSE i \in 1..Len(d2) : Particles[idx + i] = q]
                       ELSE ret[q]]
          /\ idx' = idx + Len(d2)
    /\ fi' = fi + 1
    /\ UNCHANGED <<cs, files, err>>

Pick == fi = 0 /\ \E c \in CasesOf(cs) : Write(c)
Next == Pick \/ Raise \/ LoadFile
Spec == Init /\ [][Next]_vars

Written == fi >= 1
Done == Written /\ fi = Len(files) + 1

--------------------------------------------------------------------------
(* theorems                                                                 *)
TypeOK == /\ fi \in 0..(MaxP + 1) /\ idx \in 0..MaxP /\ err \in BOOLEAN
Layout == Written => RowLayout(cs) /\ files = Save(cs)
NoRaise == ~err
InferredSplit == (Written /\ cs.layout = "event_major") =>
                   /\ NTotal % cs.n = 0
                   /\ SplitOf(cs) = cs.groups
\* partial result: the particles of the files loaded so far, nothing else
Progress == Written =>
            /\ idx = Off(cs.groups, fi)
            /\ \A s \in 1..cs.n :
                 ret[cs.perm[s]] = IF s <= idx THEN Sample(cs.n, cs.N)[cs.perm[s]] ELSE <<>>
RoundTrip == Done => ret = Sample(cs.n, cs.N)

CaseOut(c) ==
    [n |-> c.n, N |-> c.N, groups |-> c.groups, perm |-> c.perm, layout |-> c.layout,
     files |-> Save(c), p |-> Sample(c.n, c.N)]
Post ==
    /\ TLCGet("stats").diameter >= 0
    /\ LET all == AllCases(0) IN
       JsonSerialize(IOEnv.OUT_FILE, [ncases |-> Cardinality(all), nframes |-> Cardinality(Frames),
                                      cases |-> {CaseOut(c) : c \in all}])
==========================================================================
