------------------------------ MODULE Tables ------------------------------
(* Exact tables of the rotation-group kernels of tf-pwa                      *)
(*   tf_pwa/dfun.py   small_d_weight, delta_D_index (Dfun_delta_v2)          *)
(*   tf_pwa/cg.py     cg_coef / get_cg_coef / cg_table.json                  *)
(*   tf_pwa/breit_wigner.py  Bprime_polynomial / get_bprime_coeff            *)
(* computed by TLC in 32-bit integer arithmetic.  Spins and projections are  *)
(* doubled (j2 = 2j); square roots of rationals are carried as               *)
(* <<sign, num, den>> with value sign*sqrt(num)/den (d-weights) or as        *)
(* <<sign, |S|, E>> with value sign*|S|*sqrt(prod_p p^E[p]) (Clebsch-Gordan, *)
(* E an exponent vector over the primes <= 17, so that 17! never has to be   *)
(* formed).                                                                  *)
(*                                                                           *)
(* Every table cell is one TLC state (Init picks the cell), the theorems     *)
(* that validate the transcription are invariants evaluated on every cell:   *)
(*   d-weights : d(0) = 1, d(pi) antidiagonal with sign (-1)^(j-n),          *)
(*               d_mn = (-1)^(m-n) d_nm = d_{-n,-m}, rows of d(pi/2)         *)
(*               orthonormal (exact integer identity)                        *)
(*   CG        : exchange and reflection symmetries with (-1)^(j1+j2-J),     *)
(*               stretched state = +1, zero outside the triangle,            *)
(*               orthonormality  sum_m1 <..|JM><..|J'M> = delta_JJ'          *)
(*   delta idx : every entry decodes to (la, lb-lc) or is the overflow slot  *)
(*   BW        : Bessel recurrence, documented low orders, leading/trailing  *)
(*   PJ        : Bonnet recurrence of the Legendre polynomials, P_J(+-1)     *)
(* The complete tables are written as JSON by the postcondition.             *)
EXTENDS Integers, Sequences, FiniteSets, TLC, Json, IOUtils, Functions, SequencesExt

CONSTANTS MaxD2,     \* largest doubled spin of the d-weight table      (8)
          MaxCG2,    \* largest doubled j1, j2 of the Clebsch-Gordan table (4 | 8); J runs over the whole triangle
          MaxIdxJ2,  \* largest doubled parent spin of the delta-index table
          MaxHel2,   \* largest doubled daughter spin of the delta-index table
          MaxL,      \* largest order of the Blatt-Weisskopf table   (<= 6: 32 bits)
          MaxPJ      \* largest order of the Legendre table          (<= 5: 32 bits)

VARIABLE st          \* the table cell under consideration: <<kind, indices...>>
vars == <<st>>

Abs(x) == IF x < 0 THEN -x ELSE x
Sgn(k) == IF k % 2 = 0 THEN 1 ELSE -1                 \* (-1)^k for any integer k
Step2(a, b) == {x \in a..b : (x - a) % 2 = 0}         \* a, a+2, ..., <= b
MaxOf(S) == CHOOSE x \in S : \A y \in S : x >= y
MinOf(S) == CHOOSE x \in S : \A y \in S : x <= y
SumFn(f) == FoldFunction(LAMBDA a, b : a + b, 0, f)   \* sum of the values of f
RECURSIVE Fact(_)
Fact(n) == IF n <= 1 THEN 1 ELSE n * Fact(n - 1)      \* n <= 12 fits 32 bits
RECURSIVE Pow(_, _)
Pow(b, e) == IF e = 0 THEN 1 ELSE b * Pow(b, e - 1)
Binom(n, k) == Fact(n) \div (Fact(k) * Fact(n - k))   \* n <= 12

----------------------------------------------------------------------------
(* 1. Wigner small-d weights                                                 *)
(*    d^j_{mn}(b) = sum_l w_l sin^l(b/2) cos^(2j-l)(b/2),  l = 2k + m - n,   *)
(*    w = (-1)^(m-n+k) sqrt((j+m)!(j-m)!(j+n)!(j-n)!)                        *)
(*        / ((j-m-k)! (j+n-k)! (m-n+k)! k!)                                  *)
DA(j2, m2) == (j2 - m2) \div 2                         \* j - m
DB(j2, n2) == (j2 + n2) \div 2                         \* j + n
DC(m2, n2) == (m2 - n2) \div 2                         \* m - n
KRange(j2, m2, n2) ==
    LET lo == IF DC(m2, n2) < 0 THEN -DC(m2, n2) ELSE 0
        hi == IF DA(j2, m2) < DB(j2, n2) THEN DA(j2, m2) ELSE DB(j2, n2)
    IN lo..hi
DNum(j2, m2, n2) ==
    Fact((j2 + m2) \div 2) * Fact((j2 - m2) \div 2) * Fact((j2 + n2) \div 2) * Fact((j2 - n2) \div 2)
DDen(j2, m2, n2, k) ==
    Fact(DA(j2, m2) - k) * Fact(DB(j2, n2) - k) * Fact(DC(m2, n2) + k) * Fact(k)
\* the weight of the k-th term of Wigner's sum: <<sign, num, den>>, w = sign*sqrt(num)/den
DWeight(j2, m2, n2, k) ==
    <<Sgn(DC(m2, n2) + k), DNum(j2, m2, n2), DDen(j2, m2, n2, k)>>
Zero3 == <<0, 0, 1>>
\* the row indexed by the power l = 0..2j of sin(b/2)  (1-based: entry l+1)
WRow(j2, m2, n2) ==
    [l1 \in 1..(j2 + 1) |->
        LET l == l1 - 1
            c == DC(m2, n2)
        IN IF (l - c) % 2 = 0 /\ ((l - c) \div 2) \in KRange(j2, m2, n2)
           THEN DWeight(j2, m2, n2, (l - c) \div 2)
           ELSE Zero3]

DCells == {<<"d", j2, m2, n2>> : <<j2, m2, n2>> \in
             {t \in (0..MaxD2) \X (-MaxD2..MaxD2) \X (-MaxD2..MaxD2) :
                 /\ t[2] \in Step2(-t[1], t[1]) /\ t[3] \in Step2(-t[1], t[1])}}

\* d^j(0) = identity : only the l = 0 term survives
DAtZero(j2, m2, n2) ==
    LET e == WRow(j2, m2, n2)[1]
    IN IF m2 = n2 THEN e[1] = 1 /\ e[2] = e[3] * e[3] ELSE e = Zero3
\* d^j_{mn}(pi) = (-1)^(j-n) delta_{m,-n} : only the l = 2j term survives
DAtPi(j2, m2, n2) ==
    LET e == WRow(j2, m2, n2)[j2 + 1]
    IN IF m2 = -n2 THEN e[1] = Sgn((j2 - n2) \div 2) /\ e[2] = e[3] * e[3] ELSE e = Zero3
\* d_{mn} = (-1)^(m-n) d_{nm}
DTranspose(j2, m2, n2) ==
    \A l1 \in 1..(j2 + 1) :
        LET a == WRow(j2, m2, n2)[l1]
            b == WRow(j2, n2, m2)[l1]
        IN b = <<Sgn(DC(m2, n2)) * a[1], a[2], a[3]>>
\* d_{mn} = d_{-n,-m}
DReflect(j2, m2, n2) == WRow(j2, -n2, -m2) = WRow(j2, m2, n2)
\* rows of d^j(pi/2) are orthonormal.  With T(m,n) = sum_k sign_k (2j)!/den_k
\* (signed multinomial coefficients) d_mn(pi/2) = 2^-j T(m,n)/sqrt(C(2j,j+m) C(2j,j+n)),
\* hence  sum_n T(m,n) T(m',n) (j+n)!(j-n)! = 4^j C(2j,j+m) (2j)! delta_mm'
DT(j2, m2, n2) ==
    SumFn([k \in KRange(j2, m2, n2) |->
              DWeight(j2, m2, n2, k)[1] * (Fact(j2) \div DDen(j2, m2, n2, k))])
DOrthoHalfPi(j2, m2, mp2) ==
    SumFn([n2 \in Step2(-j2, j2) |->
              DT(j2, m2, n2) * DT(j2, mp2, n2) * (Fact((j2 + n2) \div 2) * Fact((j2 - n2) \div 2))])
      = IF m2 = mp2 THEN Pow(2, j2) * Binom(j2, (j2 + m2) \div 2) * Fact(j2) ELSE 0
\* each weight is a well-formed entry
DWellFormed(j2, m2, n2) ==
    /\ \A k \in KRange(j2, m2, n2) :
          /\ DDen(j2, m2, n2, k) > 0 /\ DNum(j2, m2, n2) > 0
          /\ Fact(j2) % DDen(j2, m2, n2, k) = 0
    /\ Cardinality({l1 \in 1..(j2 + 1) : WRow(j2, m2, n2)[l1] # Zero3}) = Cardinality(KRange(j2, m2, n2))

----------------------------------------------------------------------------
(* 2. Legendre polynomials in half-angle form = the m = n = 0 row            *)
(*    P_J(cos b) = d^J_00(b) = sum_k PJ(J)[k+1] u^k v^(J-k),                 *)
(*    u = sin^2(b/2) = (1-x)/2, v = cos^2(b/2) = (1+x)/2                     *)
PJ(J) == [k1 \in 1..(J + 1) |-> WRow(2 * J, 0, 0)[2 * (k1 - 1) + 1]]
\* integer value of the coefficient of u^k v^(J-k)  ( = (-1)^k C(J,k)^2 )
\* the numerator of the m = n = 0 row is (J!)^4, its square root (J!)^2
PJRoot(J) == Fact(J) * Fact(J)
PJInt(J, k) ==
    IF k < 0 \/ k > J THEN 0
    ELSE LET e == PJ(J)[k + 1]
         IN e[1] * (PJRoot(J) \div e[3])
PJIsInteger(J) ==
    \A k \in 0..J : LET e == PJ(J)[k + 1]
                        r == PJRoot(J)
                    IN r * r = e[2] /\ r % e[3] = 0 /\ PJInt(J, k) = Sgn(k) * Binom(J, k) * Binom(J, k)
\* Bonnet: (J+1) P_{J+1} = (2J+1) x P_J - J P_{J-1}, x = v - u, homogenised with (u+v)
\* coefficient of u^k v^(J+1-k)
PJBonnet(J) ==
    (J >= 1 /\ J < MaxPJ) =>
    \A k \in 0..(J + 1) :
        (J + 1) * PJInt(J + 1, k)
          = (2 * J + 1) * (PJInt(J, k) - PJInt(J, k - 1))
            - J * (PJInt(J - 1, k) + 2 * PJInt(J - 1, k - 1) + PJInt(J - 1, k - 2))
PJEnds(J) == PJInt(J, 0) = 1 /\ PJInt(J, J) = Sgn(J)     \* P_J(1) = 1, P_J(-1) = (-1)^J

----------------------------------------------------------------------------
(* 3. Blatt-Weisskopf: |theta_L(i w)|^2 = sum_i BWC(L)[i+1] w^(2(L-i)),      *)
(*    theta_n(x) = sum_k a(n,k) x^(n-k), a(n,k) = (n+k)!/((n-k)! k! 2^k)     *)
RECURSIVE BesselA(_, _)
BesselA(n, k) ==
    IF k < 0 \/ k > n \/ n < 0 THEN 0
    ELSE IF k = 0 THEN 1
    ELSE (BesselA(n, k - 1) * ((n + k) * (n - k + 1))) \div (2 * k)
BWC(L) ==
    [i1 \in 1..(L + 1) |->
        LET i == i1 - 1 IN
        SumFn([k \in {k \in 0..L : 2 * i - k \in 0..L} |->
                  Sgn(i - k) * BesselA(L, k) * BesselA(L, 2 * i - k)])]
\* the division in BesselA is exact and the three-term recurrence
\* theta_n = (2n-1) theta_{n-1} + x^2 theta_{n-2} holds coefficient-wise
BWExact(L) ==
    \A k \in 1..L : (BesselA(L, k - 1) * ((L + k) * (L - k + 1))) % (2 * k) = 0
BWRecurrence(L) ==
    L >= 2 => \A k \in 0..L : BesselA(L, k) = (2 * L - 1) * BesselA(L - 1, k - 1) + BesselA(L - 2, k)
RECURSIVE DoubleFact(_)
DoubleFact(k) == IF k <= 1 THEN 1 ELSE k * DoubleFact(k - 2)
BWEnds(L) == BWC(L)[1] = 1 /\ BWC(L)[L + 1] = DoubleFact(2 * L - 1) * DoubleFact(2 * L - 1)
\* the orders written out in the documentation of Bprime: 1, z+1, z^2+3z+9
BWDocumented(L) ==
    /\ (L = 0 => BWC(0) = <<1>>)
    /\ (L = 1 => BWC(1) = <<1, 1>>)
    /\ (L = 2 => BWC(2) = <<1, 3, 9>>)

----------------------------------------------------------------------------
(* 4. delta_D_index: gather list for D_{la, lb-lc} out of the flattened      *)
(*    (2j+1)x(2j+1) matrix (row = la + j, column = lb - lc + j), with the    *)
(*    extra slot (2j+1)^2 (a padded zero) when |lb - lc| > j.                *)
(*    Helicities doubled; lists are sequences; output in row-major order of  *)
(*    (ia, ib, ic).                                                          *)
DeltaEntry(j2, a2, b2, c2) ==
    IF Abs(b2 - c2) <= j2
    THEN ((a2 + j2) \div 2) * (j2 + 1) + ((b2 - c2 + j2) \div 2)
    ELSE (j2 + 1) * (j2 + 1)
DeltaIndex(j2, la, lb, lc) ==
    [t \in 1..(Len(la) * Len(lb) * Len(lc)) |->
        LET u == t - 1
            ic == u % Len(lc)
            ib == (u \div Len(lc)) % Len(lb)
            ia == u \div (Len(lc) * Len(lb))
        IN DeltaEntry(j2, la[ia + 1], lb[ib + 1], lc[ic + 1])]
Asc(S) == SetToSortSeq(S, LAMBDA x, y : x < y)
HelLists(s2) == {Asc(S) : S \in (SUBSET Step2(-s2, s2)) \ {{}}}
ParentLists(j2) ==
    {Asc(Step2(-j2, j2)), Reverse(Asc(Step2(-j2, j2))), Asc({-j2, j2})}
DeltaCells ==
    UNION {UNION {UNION {
        {<<"delta", j2, la, lb, lc>> : <<la, lb, lc>> \in ParentLists(j2) \X HelLists(jb2) \X HelLists(jc2)}
        : jc2 \in {x \in 0..MaxHel2 : (j2 + jb2 + x) % 2 = 0}}
        : jb2 \in 0..MaxHel2}
        : j2 \in 0..MaxIdxJ2}
DeltaDecodes(j2, la, lb, lc) ==
    LET idx == DeltaIndex(j2, la, lb, lc)
        n == j2 + 1
    IN \A ia \in 1..Len(la), ib \in 1..Len(lb), ic \in 1..Len(lc) :
          LET e == idx[((ia - 1) * Len(lb) + (ib - 1)) * Len(lc) + ic]
              dl == lb[ib] - lc[ic]
          IN IF Abs(dl) <= j2
             THEN /\ e \in 0..(n * n - 1)
                  /\ 2 * (e \div n) - j2 = la[ia]        \* row    <-> la
                  /\ 2 * (e % n) - j2 = dl               \* column <-> lb - lc
             ELSE e = n * n

----------------------------------------------------------------------------
(* 5. Clebsch-Gordan coefficients <j1 m1 j2 m2 | J M>, Racah's formula with  *)
(*    all factorials as prime-exponent vectors                               *)
Primes == <<2, 3, 5, 7, 11, 13, 17>>
NP == 7
VZero == [i \in 1..NP |-> 0]
VAdd(a, b) == [i \in 1..NP |-> a[i] + b[i]]
VSub(a, b) == [i \in 1..NP |-> a[i] - b[i]]
VScale(c, a) == [i \in 1..NP |-> c * a[i]]
VMaxSet(S) == [i \in 1..NP |-> MaxOf({v[i] : v \in S})]
VMinSet(S) == [i \in 1..NP |-> MinOf({v[i] : v \in S})]
VPos(a) == [i \in 1..NP |-> IF a[i] > 0 THEN a[i] ELSE 0]
VNeg(a) == [i \in 1..NP |-> IF a[i] < 0 THEN -a[i] ELSE 0]
\* Legendre: exponent of p in n!  (n <= 17 < 19 = next prime, 17 < 2^5)
VF(n) == [i \in 1..NP |-> LET p == Primes[i]
                         IN (n \div p) + (n \div (p * p)) + (n \div (p * p * p)) + (n \div (p * p * p * p))]
VInt(n) == VSub(VF(n), VF(n - 1))                       \* 1 <= n <= 17
RECURSIVE VPowFrom(_, _)
VPowFrom(a, i) == IF i > NP THEN 1 ELSE Pow(Primes[i], a[i]) * VPowFrom(a, i + 1)
VPow(a) == VPowFrom(a, 1)                               \* a >= 0 component-wise
VSumSeq(s) == FoldSeq(LAMBDA v, acc : VAdd(v, acc), VZero, s)

\* arguments: doubled j1, m1, j2, m2, J ; M = m1 + m2
CGAdmissible(a2, al2, b2, be2, c2) ==
    /\ (a2 + b2 + c2) % 2 = 0
    /\ c2 >= Abs(a2 - b2) /\ c2 <= a2 + b2
    /\ Abs(al2 + be2) <= c2
T1(a2, b2, c2) == (a2 + b2 - c2) \div 2                 \* j1 + j2 - J
T2(a2, al2) == (a2 - al2) \div 2                        \* j1 - m1
T3(b2, be2) == (b2 + be2) \div 2                        \* j2 + m2
T4(a2, al2, b2, c2) == (c2 - b2 + al2) \div 2           \* J - j2 + m1
T5(a2, b2, be2, c2) == (c2 - a2 - be2) \div 2           \* J - j1 - m2
CGK(a2, al2, b2, be2, c2) ==
    MaxOf({0, -T4(a2, al2, b2, c2), -T5(a2, b2, be2, c2)})
      .. MinOf({T1(a2, b2, c2), T2(a2, al2), T3(b2, be2)})
CGDenV(a2, al2, b2, be2, c2, k) ==
    VSumSeq(<<VF(k), VF(T1(a2, b2, c2) - k), VF(T2(a2, al2) - k), VF(T3(b2, be2) - k),
              VF(T4(a2, al2, b2, c2) + k), VF(T5(a2, b2, be2, c2) + k)>>)
\* least common denominator of the Racah sum and the integer numerator sum
CGLcd(a2, al2, b2, be2, c2) ==
    VMaxSet({CGDenV(a2, al2, b2, be2, c2, k) : k \in CGK(a2, al2, b2, be2, c2)})
CGSum(a2, al2, b2, be2, c2) ==
    LET D == CGLcd(a2, al2, b2, be2, c2) IN
    SumFn([k \in CGK(a2, al2, b2, be2, c2) |->
              Sgn(k) * VPow(VSub(D, CGDenV(a2, al2, b2, be2, c2, k)))])
\* triangle coefficient times (2J+1):  J-dependent part of the prefactor
CGPreJ(a2, b2, c2, M2) ==
    VSumSeq(<<VInt(c2 + 1),
              VF((a2 + b2 - c2) \div 2), VF((a2 - b2 + c2) \div 2), VF((b2 + c2 - a2) \div 2),
              VScale(-1, VF((a2 + b2 + c2) \div 2 + 1)),
              VF((c2 + M2) \div 2), VF((c2 - M2) \div 2)>>)
\* projection-dependent part of the prefactor
CGPreM(a2, al2, b2, be2) ==
    VSumSeq(<<VF((a2 - al2) \div 2), VF((a2 + al2) \div 2), VF((b2 - be2) \div 2), VF((b2 + be2) \div 2)>>)
CGZero == <<0, 0, VZero>>
\* <<sign, |S|, E>> :  CG = sign * |S| * sqrt(prod p^E),  CG^2 = S^2 prod p^E
CG2(a2, al2, b2, be2, c2) ==
    IF ~CGAdmissible(a2, al2, b2, be2, c2) THEN CGZero
    ELSE LET S == CGSum(a2, al2, b2, be2, c2)
             E == VSub(VAdd(CGPreJ(a2, b2, c2, al2 + be2), CGPreM(a2, al2, b2, be2)),
                       VScale(2, CGLcd(a2, al2, b2, be2, c2)))
         IN IF S = 0 THEN CGZero ELSE <<IF S > 0 THEN 1 ELSE -1, Abs(S), E>>

CGCells ==
    {<<"cg", t[1], t[2], t[3], t[4], t[5]>> : t \in
        {t \in (0..MaxCG2) \X (-MaxCG2..MaxCG2) \X (0..MaxCG2) \X (-MaxCG2..MaxCG2) \X (0..(2 * MaxCG2 + 2)) :
            /\ t[2] \in Step2(-t[1], t[1]) /\ t[4] \in Step2(-t[3], t[3])
            /\ (t[1] + t[3] + t[5]) % 2 = 0
            /\ t[5] <= t[1] + t[3] + 2}}                 \* all J of the triangle, one beyond, all below
\* orthonormality cells: (j1, j2, J, J', M)
CGOCells ==
    {<<"cgo", t[1], t[2], t[3], t[4], t[5]>> : t \in
        {t \in (0..MaxCG2) \X (0..MaxCG2) \X (0..(2 * MaxCG2)) \X (0..(2 * MaxCG2)) \X (-(2 * MaxCG2)..(2 * MaxCG2)) :
            /\ (t[1] + t[2] + t[3]) % 2 = 0 /\ (t[1] + t[2] + t[4]) % 2 = 0
            /\ t[3] >= Abs(t[1] - t[2]) /\ t[3] <= t[1] + t[2]
            /\ t[4] >= Abs(t[1] - t[2]) /\ t[4] <= t[1] + t[2]
            /\ t[3] <= t[4]
            /\ t[5] \in Step2(-t[3], t[3])}}

CGTimesSign(e, s) == IF e = CGZero THEN CGZero ELSE <<s * e[1], e[2], e[3]>>
\* <j2 m2 j1 m1|JM> = (-1)^(j1+j2-J) <j1 m1 j2 m2|JM>
CGExchange(a2, al2, b2, be2, c2) ==
    (a2 + b2 - c2) \div 2 >= 0 =>
    CG2(b2, be2, a2, al2, c2) = CGTimesSign(CG2(a2, al2, b2, be2, c2), Sgn((a2 + b2 - c2) \div 2))
\* <j1 -m1 j2 -m2|J -M> = (-1)^(j1+j2-J) <j1 m1 j2 m2|JM>
CGReflect(a2, al2, b2, be2, c2) ==
    (a2 + b2 - c2) \div 2 >= 0 =>
    CG2(a2, -al2, b2, -be2, c2) = CGTimesSign(CG2(a2, al2, b2, be2, c2), Sgn((a2 + b2 - c2) \div 2))
\* value as a reduced-by-construction fraction S^2 prod p^E = num/den
CGIsOne(e) == e[1] = 1 /\ e[2] * e[2] * VPow(VPos(e[3])) = VPow(VNeg(e[3]))
\* <j1 j1 j2 j2 | j1+j2 j1+j2> = +1 ; <j m 0 0|j m> = 1 ; Condon-Shortley: <j1 j1 j2 (J-j1)|J J> > 0
CGAnchors(a2, al2, b2, be2, c2) ==
    /\ (c2 = a2 + b2 /\ al2 = a2 /\ be2 = b2) => CGIsOne(CG2(a2, al2, b2, be2, c2))
    /\ (b2 = 0 /\ c2 = a2) => CGIsOne(CG2(a2, al2, b2, be2, c2))
    /\ (CGAdmissible(a2, al2, b2, be2, c2) /\ al2 = a2 /\ al2 + be2 = c2) => CG2(a2, al2, b2, be2, c2)[1] = 1
    /\ ~CGAdmissible(a2, al2, b2, be2, c2) => CG2(a2, al2, b2, be2, c2) = CGZero
\* <j 0 j 0|0 0> = (-1)^j / sqrt(2j+1)  (used by the closed form of C04)
CGSinglet(a2, al2, b2, be2, c2) ==
    (c2 = 0 /\ a2 = b2 /\ al2 = -be2) =>
        LET e == CG2(a2, al2, b2, be2, c2)
        IN /\ e[1] = Sgn((a2 - al2) \div 2)
           /\ e[2] * e[2] * VPow(VPos(e[3])) * (a2 + 1) = VPow(VNeg(e[3]))

\* sum over m1 of <j1 m1 j2 M-m1|J M><j1 m1 j2 M-m1|J' M> = delta_JJ'.
\* The J-dependent square roots factor out of the sum; the remaining sum is
\* rational and is brought to a common exponent vector G.
CGOTerms(a2, b2, c2, cp2, M2) ==
    {al2 \in Step2(-a2, a2) : (M2 - al2) \in Step2(-b2, b2)}
CGOVec(a2, al2, b2, c2, cp2, M2) ==
    VSub(CGPreM(a2, al2, b2, M2 - al2),
         VAdd(CGLcd(a2, al2, b2, M2 - al2, c2), CGLcd(a2, al2, b2, M2 - al2, cp2)))
CGOrtho(a2, b2, c2, cp2, M2) ==
    LET ms == CGOTerms(a2, b2, c2, cp2, M2)
        G == VMinSet({CGOVec(a2, al2, b2, c2, cp2, M2) : al2 \in ms})
        Q == SumFn([al2 \in ms |->
                 CGSum(a2, al2, b2, M2 - al2, c2) * CGSum(a2, al2, b2, M2 - al2, cp2)
                   * VPow(VSub(CGOVec(a2, al2, b2, c2, cp2, M2), G))])
        H == VAdd(G, CGPreJ(a2, b2, c2, M2))
    IN IF Abs(M2) > c2 \/ Abs(M2) > cp2 \/ ms = {} THEN TRUE
       ELSE IF c2 # cp2 THEN Q = 0
       ELSE Q > 0 /\ Q * VPow(VPos(H)) = VPow(VNeg(H))

----------------------------------------------------------------------------
BWCells == {<<"bw", L>> : L \in 0..MaxL}
PJCells == {<<"pj", J>> : J \in 0..MaxPJ}
Cells == DCells \cup DeltaCells \cup CGCells \cup CGOCells \cup BWCells \cup PJCells

Init == st \in Cells
Next == UNCHANGED vars

Kind == st[1]
InvDWeights ==
    Kind = "d" =>
        /\ DWellFormed(st[2], st[3], st[4])
        /\ DAtZero(st[2], st[3], st[4])
        /\ DAtPi(st[2], st[3], st[4])
        /\ DTranspose(st[2], st[3], st[4])
        /\ DReflect(st[2], st[3], st[4])
InvDUnitary == Kind = "d" => DOrthoHalfPi(st[2], st[3], st[4])
InvDelta == Kind = "delta" => DeltaDecodes(st[2], st[3], st[4], st[5])
InvCGSymmetry ==
    Kind = "cg" =>
        /\ CGExchange(st[2], st[3], st[4], st[5], st[6])
        /\ CGReflect(st[2], st[3], st[4], st[5], st[6])
        /\ CGAnchors(st[2], st[3], st[4], st[5], st[6])
        /\ CGSinglet(st[2], st[3], st[4], st[5], st[6])
InvCGOrtho == Kind = "cgo" => CGOrtho(st[2], st[3], st[4], st[5], st[6])
InvBW == Kind = "bw" =>
        /\ BWExact(st[2]) /\ BWRecurrence(st[2]) /\ BWEnds(st[2]) /\ BWDocumented(st[2])
InvPJ == Kind = "pj" => PJIsInteger(st[2]) /\ PJBonnet(st[2]) /\ PJEnds(st[2])

----------------------------------------------------------------------------
(* tables for the harness *)
DTable == {<<c[2], c[3], c[4], WRow(c[2], c[3], c[4])>> : c \in DCells}
DeltaTable == {<<c[2], c[3], c[4], c[5], DeltaIndex(c[2], c[3], c[4], c[5])>> : c \in DeltaCells}
CGTable == {<<c[2], c[3], c[4], c[5], c[6], CG2(c[2], c[3], c[4], c[5], c[6])>> : c \in CGCells}
BWTable == {<<L, BWC(L)>> : L \in 0..MaxL}
PJTable == {<<J, PJ(J)>> : J \in 0..MaxPJ}

Post ==
    /\ TLCGet("stats").diameter >= 0
    /\ JsonSerialize(IOEnv.OUT_FILE,
         [maxd2 |-> MaxD2, maxcg2 |-> MaxCG2, primes |-> Primes,
          ncells |-> [d |-> Cardinality(DCells), delta |-> Cardinality(DeltaCells),
                      cg |-> Cardinality(CGCells), cgo |-> Cardinality(CGOCells),
                      bw |-> Cardinality(BWCells), pj |-> Cardinality(PJCells)],
          dweights |-> DTable, delta |-> DeltaTable, cg |-> CGTable,
          bw |-> BWTable, pj |-> PJTable])
=============================================================================
