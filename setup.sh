#!/bin/sh
# Offline setup: verify tools, pre-parse every specification module.
set -e
cd "$(dirname "$0")"
java -version 2>&1 | head -1
/venv/bin/python -c "import numpy, scipy, sympy, yaml; print('python ok')"
mkdir -p .work/sany evidence replays
fail=0
for f in spec/*.tla; do
  m=$(basename "$f" .tla)
  if ! (cd spec && java -cp /opt/veriftools/tla/tla2tools.jar:/opt/veriftools/tla/CommunityModules-deps.jar tla2sany.SANY "$m.tla" > ../.work/sany/$m.log 2>&1) || grep -q "\*\*\* Errors\|Fatal errors" .work/sany/$m.log; then
    echo "SANY FAILED: $m"; tail -20 .work/sany/$m.log; fail=1
  fi
done
rm -rf .work/sany
[ $fail = 0 ] && echo "setup ok"
exit $fail
